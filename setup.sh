#!/bin/bash
# Builds the overlay virtualenv the checks run in.  Offline: only /venv (the
# repository's own interpreter + deps) and the wheelhouse are used.
set -e
cd "$(dirname "$0")"
V=${VERIF_VENV:-/verif/.venv}
if [ -x "$V/bin/python" ] && "$V/bin/python" -c "import crosshair, z3, cvc5, mistletoe" 2>/dev/null; then
  echo "setup: overlay venv already usable"; exit 0
fi
rm -rf "$V"
/venv/bin/python -m venv "$V"
SP=$("$V/bin/python" -c "import sysconfig; print(sysconfig.get_paths()['purelib'])")
echo "import site; site.addsitedir('/venv/lib/python3.12/site-packages')" > "$SP/_overlay.pth"
PIP_NO_INDEX=1 "$V/bin/python" -m pip install -q --no-index --find-links /opt/veriftools/wheels crosshair-tool z3-solver cvc5
"$V/bin/python" -c "import crosshair, z3, cvc5; print('setup: crosshair', crosshair.__version__, 'z3', z3.get_version_string(), 'cvc5', cvc5.__version__)"
