import re, itertools, sys
import rxplug
from crosshair.core_and_libs import standalone_statespace, NoTracing
from crosshair.libimpl.builtinslib import LazyIntSymbolicStr
from crosshair.libimpl import relib
sys.path.insert(0, '/repo')
from mistletoe import block_token as bt, core_tokens as ct, span_token as sp
from mistletoe.latex_token import Math
rxplug.install()
import rxfix; rxfix.install()
which = sys.argv[1]
pats = {'code': (ct.code_pattern, '`\\a \n', 'search'), 'math': (Math.pattern, '$a \n', 'search'),
        'thematic_greedy': (re.compile(r' {0,3}(?:([-_*])\s*)(?:\1\s*){2,}$'), '-_* a\n', 'match'),
        'thematic': (bt.ThematicBreak.pattern, '-_* a\n', 'match'),
        'autolink': (sp.AutoLink.pattern, '<a:@.>\\ ', 'search'),
        'heading': (bt.Heading.pattern, '# a\n', 'match'),
        'fence': (bt.CodeFence.pattern, '`~ a\n', 'match'),
        'list': (bt.List.pattern, '-1. a\n\t', 'match'),
        'listitem': (bt.ListItem.pattern, '-1. a\n\t', 'match'),
        'setext': (bt.Paragraph.setext_pattern, '=- a\n', 'match'),
        'tabledelim': (bt.Table.delimiter_row_pattern, '|-: a\n', 'fullmatch'),
        'linebreak': (sp.LineBreak.pattern, ' \\a\n', 'search'),
        'strike': (sp.Strikethrough.pattern, '~\\a \n', 'search'),
        'escape': (sp.EscapeSequence.pattern, '\\*a \n', 'search'),
        }
pat, alph, mode = pats[which]
bad = 0; n = 0
with standalone_statespace, NoTracing():
    for L in range(0, 6):
        for tup in itertools.product(alph, repeat=L):
            s = ''.join(tup)
            sym = LazyIntSymbolicStr(list(map(ord, s)))
            if mode == 'match':
                real = pat.match(s); got = relib._match_pattern(pat, sym, 0)
            elif mode == 'fullmatch':
                real = pat.fullmatch(s)
                comp = list(relib.parse(pat.pattern, pat.flags)); comp.append((relib.AT, relib.AT_END_STRING))
                got = relib._match_pattern(pat, sym, 0, None, comp)
            else:
                real = pat.search(s); got = None
                for pos in range(len(s) + 1):
                    got = relib._match_pattern(pat, sym, pos)
                    if got: break
            n += 1
            a = None if real is None else (real.start(), real.end(), real.groups())
            b = None if not got else (int(got.start()), int(got.end()), tuple(None if g is None else str(g) for g in got.groups()))
            if which == 'thematic_greedy':
                a = a is not None; b = b is not None
            if a != b:
                bad += 1
                if bad < 4: print(which, repr(s), a, b)
print(which, 'cases', n, 'disagreements', bad)
