import common
import re
from typing import List
import mistletoe.block_token as bt
import mistletoe.block_tokenizer as btk
from mistletoe import span_token

# ---- probe 2: heading level range + ATX reference regex
REF_ATX = re.compile(r' {0,3}#{1,6}(?:[ \t]|\n)')
def heading_start(line: str) -> bool:
    """
    pre: 1 <= len(line) <= 5
    pre: line[-1] == chr(10) and chr(10) not in line[:-1]
    post: _
    """
    got = bool(bt.Heading.start(line))
    exp = bool(REF_ATX.match(line))
    if got != exp:
        return False
    return (not got) or (1 <= bt.Heading.level <= 6)

# ---- probe 3: quote embedding reconstructs the lines
def quote_embed(a: str, b: str) -> bool:
    """
    pre: len(a) <= 3 and len(b) <= 3
    pre: chr(10) not in a and chr(10) not in b and chr(9) not in a and chr(9) not in b
    pre: chr(13) not in a and chr(13) not in b
    post: _
    """
    captured = []
    orig = btk.tokenize_block
    def fake(lines, token_types, start_line=1):
        captured.append((list(lines), start_line, bt.Paragraph.parse_setext))
        return btk.ParseBuffer()
    btk.tokenize_block = fake
    try:
        fw = btk.FileWrapper(['> ' + a + '\n', '> ' + b + '\n'], start_line=7)
        bt.Quote.read(fw)
    finally:
        btk.tokenize_block = orig
        bt.Paragraph.parse_setext = True
    (lines, start_line, setext), = captured
    return lines == [a + '\n', b + '\n'] and start_line == 7 and fw._index == 1

# ---- probe 5: scratch-state non-interference
DOC = "# h\n\n```py\nx\n```\n\n<!-- c\n-->\n\npara\n===\n"
def scratch(level: int, content: str, closing: str, oi0: int, oi1: str, oi2: str, oi3: str, endc: str) -> bool:
    """
    pre: len(content) <= 3 and len(closing) <= 3 and len(oi1) <= 3 and len(oi2) <= 3 and len(oi3) <= 3 and len(endc) <= 3
    post: _
    """
    from mistletoe.html_renderer import HtmlRenderer
    import mistletoe
    bt.Heading.level = level; bt.Heading.content = content; bt.Heading.closing_sequence = closing
    bt.CodeFence._open_info = (oi0, oi1, oi2, oi3)
    with HtmlRenderer() as r:
        bt.HtmlBlock._end_cond = endc
        out = r.render(bt.Document(DOC))
    return out == '<h1>h</h1>\n<pre><code class="language-py">x\n</code></pre>\n<!-- c\n-->\n<h1>para</h1>\n'

# ---- probe 6: splitlines normalisation
def norm(s: str) -> bool:
    """
    pre: 1 <= len(s) <= 4
    pre: all(c not in s for c in (chr(13), chr(11), chr(12), chr(28), chr(29), chr(30), chr(133), chr(8232), chr(8233)))
    post: _
    """
    seen = []
    orig = bt.tokenize
    bt.tokenize = lambda lines: (seen.append(list(lines)), [])[1]
    try:
        bt.Document(s)
        bt.Document(s + '\n') if not s.endswith('\n') else None
        parts = s.split('\n')
        lines = [p + '\n' for p in parts[:-1]] + ([parts[-1]] if parts[-1] != '' else [])
        bt.Document(lines)
    finally:
        bt.tokenize = orig
    return all(x == seen[0] for x in seen[1:])
