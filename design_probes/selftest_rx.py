import re, itertools, sys
import rxplug
from crosshair.core_and_libs import standalone_statespace, NoTracing
from crosshair.libimpl.builtinslib import LazyIntSymbolicStr
from crosshair.libimpl import relib
sys.path.insert(0, '/repo')
from mistletoe import block_token as bt, core_tokens as ct
from mistletoe.latex_token import Math
rxplug.install()
pats = {'thematic': bt.ThematicBreak.pattern, 'code': ct.code_pattern, 'math': Math.pattern}
alph = {'thematic': '-_* a\n', 'code': '`\\a \n', 'math': '$a \n'}
bad = 0; n = 0
with standalone_statespace, NoTracing():
    for name, pat in pats.items():
        for L in range(0, 6):
            for tup in itertools.product(alph[name], repeat=L):
                s = ''.join(tup)
                real = pat.search(s) if name != 'thematic' else pat.match(s)
                sym = LazyIntSymbolicStr(list(map(ord, s)))
                if name == 'thematic':
                    got = relib._match_pattern(pat, sym, 0)
                else:
                    got = None
                    for pos in range(len(s) + 1):
                        got = relib._match_pattern(pat, sym, pos)
                        if got: break
                n += 1
                a = None if real is None else (real.start(), real.end(), real.groups())
                b = None if not got else (int(got.start()), int(got.end()), tuple(None if g is None else str(g) for g in got.groups()))
                if a != b:
                    bad += 1
                    if bad < 6: print(name, repr(s), a, b)
print('cases', n, 'disagreements', bad)
