from mistletoe import core_tokens as ct

class NoMatchPattern:
    def search(self, s, pos=0): return None
ct.code_pattern = NoMatchPattern()

def core(s: str) -> int:
    """
    pre: len(s) <= 4
    pre: all(c in 'a *_.' for c in s)
    post: _ >= 0
    """
    ms = ct.find_core_tokens(s, None)
    return len(ms)
