import rxplug; rxplug.install()
from chxplug import MaskSet
from mistletoe import core_tokens as ct
import mistletoe.block_token as bt
ct.punctuation = MaskSet(ct.punctuation)
ct.unicode_whitespace = MaskSet(ct.unicode_whitespace)
ct.whitespace = MaskSet(ct.whitespace)
bt.whitespace = ct.whitespace
