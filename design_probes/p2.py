from mistletoe.html_renderer import HtmlRenderer
import html
from urllib.parse import quote

def esc_text(s: str, dq: bool, sq: bool) -> str:
    """
    pre: len(s) <= 4
    post: '<' not in _ and '>' not in _
    """
    r = HtmlRenderer.__new__(HtmlRenderer)
    r.html_escape_double_quotes = dq
    r.html_escape_single_quotes = sq
    return r.escape_html_text(s)

def esc_attr(s: str) -> str:
    """
    pre: len(s) <= 4
    post: '<' not in _ and '>' not in _ and '"' not in _
    """
    return html.escape(s)

def esc_url(s: str) -> str:
    """
    pre: len(s) <= 3
    post: '<' not in _ and '>' not in _ and '"' not in _
    """
    return HtmlRenderer.escape_url(s)
