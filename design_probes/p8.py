import rxplug; rxplug.install()
import mistletoe
from mistletoe.html_renderer import HtmlRenderer
from mistletoe import core_tokens as ct
from chxplug import MaskSet
ct.punctuation = MaskSet(ct.punctuation)
ct.unicode_whitespace = MaskSet(ct.unicode_whitespace)
ct.whitespace = MaskSet(ct.whitespace)
import mistletoe.block_token as bt
bt.whitespace = ct.whitespace

def html_total1(s: str) -> str:
    """
    pre: len(s) <= 1
    post: True
    """
    return mistletoe.markdown(s, HtmlRenderer)
def html_total2(s: str) -> str:
    """
    pre: len(s) <= 2
    post: True
    """
    return mistletoe.markdown(s, HtmlRenderer)
