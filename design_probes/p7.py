from mistletoe import core_tokens as ct

class RunStr:
    """homogeneous string ch*n with (possibly symbolic) n"""
    def __init__(self, ch, n): self.ch, self.n = ch, n
    def __len__(self): return self.n
    def __getitem__(self, i):
        n = self.n
        if isinstance(i, slice):
            assert i.step is None
            lo = 0 if i.start is None else i.start
            hi = n if i.stop is None else i.stop
            if lo < 0: lo = max(n + lo, 0)
            if hi < 0: hi = max(n + hi, 0)
            lo = min(lo, n); hi = min(hi, n)
            return RunStr(self.ch, max(hi - lo, 0))
        if i < 0: i += n
        if not (0 <= i < n): raise IndexError("string index out of range")
        return self.ch
    def startswith(self, t):
        return self.n >= 1 and self.ch in t
    def __eq__(self, o): return isinstance(o, str) and self.n == len(o) and all(c == self.ch for c in o)
    def __hash__(self): return 0

class AnyStr:
    def __getitem__(self, i): return 'x'

def mk(idx, ch, n, op, cl):
    d = ct.Delimiter.__new__(ct.Delimiter)
    d.type = RunStr(ch, n); d.number = n; d.active = True
    d.start = 100 * idx; d.end = 100 * idx + n
    d.open = op; d.close = cl
    return d

def ref(runs):
    """CommonMark 0.30 process-emphasis on abstract runs; returns sorted [(start,end,strong)]"""
    st = [dict(i=i, ch=ch, n=n, orig=n, op=op, cl=cl, s=100*i, e=100*i+n) for i,(ch,n,op,cl) in enumerate(runs)]
    out = []
    bottoms = {}
    pos = 0
    while pos < len(st):
        c = st[pos]
        if not c['cl']:
            pos += 1; continue
        key = (c['ch'], c['op'], c['orig'] % 3)
        bottom = bottoms.get(key, -1)   # index into st of lowest allowed-1 ; we track by identity
        j = pos - 1
        found = None
        while j >= 0 and (bottom == -1 or st[j] is not bottom):
            o = st[j]
            if o['ch'] == c['ch'] and o['op']:
                odd = (o['op'] and o['cl']) or (c['op'] and c['cl'])
                if not (odd and (o['orig'] + c['orig']) % 3 == 0 and not (o['orig'] % 3 == 0 and c['orig'] % 3 == 0)):
                    found = j; break
            j -= 1
        if found is not None:
            o = st[found]
            k = 2 if (o['n'] >= 2 and c['n'] >= 2) else 1
            out.append((o['e'] - k, c['s'] + k, k == 2))
            o['e'] -= k; o['n'] -= k; c['s'] += k; c['n'] -= k
            del st[found+1:pos]
            pos = found + 1
            if o['n'] == 0:
                del st[found]; pos -= 1
            if c['n'] == 0:
                del st[pos]
        else:
            bottoms[key] = st[pos-1] if pos > 0 else None
            if bottoms[key] is None: bottoms[key] = -1
            if not c['op']:
                del st[pos]
            else:
                pos += 1
    return sorted(out)

def emph3(c1: bool, n1: int, o1: bool, l1: bool,
          c2: bool, n2: int, o2: bool, l2: bool,
          c3: bool, n3: int, o3: bool, l3: bool) -> bool:
    """
    pre: 1 <= n1 <= 4 and 1 <= n2 <= 4 and 1 <= n3 <= 4
    post: _
    """
    runs = [('*' if c1 else '_', n1, o1, l1), ('*' if c2 else '_', n2, o2, l2), ('*' if c3 else '_', n3, o3, l3)]
    ds = [mk(i, *r) for i, r in enumerate(runs)]
    matches = []
    ct.process_emphasis(AnyStr(), None, ds, matches)
    got = sorted((m.start(), m.end(), m.type == 'Strong') for m in matches)
    return got == ref(runs)
