import common
import mistletoe.block_token as bt
import mistletoe.block_tokenizer as btk
from mistletoe import token as tokmod
from mistletoe.markdown_renderer import MarkdownRenderer

class LenStr:
    """string known only by its length and the ids of the words it is made of"""
    def __init__(self, n, ids): self.n, self.ids = n, ids
    def __len__(self): return self.n
    def __bool__(self): return True if self.n > 0 else False
    def __add__(self, o):
        if isinstance(o, str): return LenStr(self.n + len(o), self.ids)
        return LenStr(self.n + o.n, self.ids + o.ids)
    def __radd__(self, o):
        return LenStr(len(o) + self.n, self.ids)
    def __eq__(self, o): return False
    __hash__ = None

def fill(n1: int, n2: int, n3: int, n4: int, L: int) -> bool:
    """
    pre: n1 >= 1 and n2 >= 1 and n3 >= 1 and n4 >= 1 and L >= 1
    post: _
    """
    words = [LenStr(n, (i,)) for i, n in enumerate((n1, n2, n3, n4))]
    class R(MarkdownRenderer):
        @classmethod
        def make_words(cls, fragments): return iter(words)
    lines = list(R.fragments_to_lines([], max_line_length=L))
    order = []
    for ln in lines:
        if len(ln) > L and len(ln.ids) != 1:
            return False
        order.extend(ln.ids)
    return order == [0, 1, 2, 3]

def fn_read(L: str, D: str, T: str, w: int) -> bool:
    """
    pre: len(L) <= 2 and len(D) <= 2 and len(T) <= 2 and 0 <= w <= 2
    pre: all(c in 'a[]\\\\<>\"( ' for c in L + D + T)
    post: _
    """
    ws = ['', ' ', '\n'][w]
    text = '[' + L + ']:' + ws + D + ' "' + T + '"\nx\n'
    lines = text.splitlines(keepends=True)
    root = bt.Document.__new__(bt.Document); root.footnotes = {}
    tokmod._root_node = root
    fw = btk.FileWrapper(lines)
    try:
        res = bt.Footnote.read(fw)
    finally:
        tokmod._root_node = None
    if res is None:
        return fw._index == -1
    return -1 < fw._index <= len(lines) - 1
