import common
import mistletoe.block_token as bt
import mistletoe.block_tokenizer as btk
from mistletoe import span_token
from mistletoe.html_renderer import HtmlRenderer

def _capture_quote(lines, start_line):
    captured = []
    orig = btk.tokenize_block
    def fake(ls, token_types, start_line=1):
        captured.append((list(ls), start_line, bt.Paragraph.parse_setext))
        return btk.ParseBuffer()
    btk.tokenize_block = fake
    try:
        fw = btk.FileWrapper(lines, start_line=start_line)
        bt.Quote.read(fw)
    finally:
        btk.tokenize_block = orig
        bt.Paragraph.parse_setext = True
    return captured, fw

def quote_line2(b: str, S: int) -> bool:
    """
    pre: len(b) <= 4
    pre: all(c not in b for c in (chr(10), chr(9), chr(13), chr(11), chr(12), chr(28), chr(29), chr(30), chr(31), chr(133)))
    post: _
    """
    cap, fw = _capture_quote(['> foo\n', '> ' + b + '\n', '> bar\n'], S)
    (lines, start_line, setext), = cap
    return lines == ['foo\n', b + '\n', 'bar\n'] and start_line == S and fw._index == 2

def progress(x: str, pos: int) -> bool:
    """
    pre: len(x) <= 4 and chr(10) not in x and chr(13) not in x
    pre: 0 <= pos <= 3
    post: _
    """
    lines = ['a\n', x + '\n', '\n', '    c\n', '\n']
    for T in bt._token_types:
        fw = btk.FileWrapper(list(lines)); fw._index = pos - 1
        line = fw.peek()
        if line is None or not T.start(line):
            continue
        before = fw._index
        bt.token._root_node = bt.Document.__new__(bt.Document); bt.token._root_node.footnotes = {}
        res = T.read(fw)
        bt.token._root_node = None
        bt.Paragraph.parse_setext = True
        if res is None:
            if fw._index != before: return False
        else:
            if not (before < fw._index <= len(lines) - 1): return False
    return True

def img(src: str, title: str) -> bool:
    """
    pre: len(src) <= 2 and len(title) <= 2
    post: _
    """
    r = HtmlRenderer.__new__(HtmlRenderer); r.html_escape_double_quotes = False; r.html_escape_single_quotes = False
    t = span_token.Image.__new__(span_token.Image); t.src = src; t.title = title; t.children = []
    out = r.render_image(t)
    # exactly one tag: no quote/angle inside attribute values
    if not (out.startswith('<img src="') and out.endswith(' />')):
        return False
    body = out[len('<img src="'):-len(' />')]
    parts = body.split('"')
    # expected: src, ' alt=', alt, (' title=', title, '')?  -> odd pieces are attr values
    if len(parts) not in (4, 6):
        return False
    return '<' not in body and '>' not in body
