"""Probe: repair CrossHair 0.0.110's symbolic regex matcher where it disagrees with `re`:
 (a) `$` without MULTILINE also matches just before a final newline,
 (b) a negative look-behind that cannot rewind succeeds (positive one fails),
 (c) a repeat of a compound body is matched continuation-aware (backtracking into the body).
"""
import re, operator
import re._parser as P
from crosshair.libimpl import relib
from crosshair.libimpl.builtinslib import SymbolicInt
from crosshair.statespace import context_statespace
from crosshair.tracers import ResumedTracing

_orig = relib._internal_match_patterns
_MP = relib._MatchPart

def _zero(offset, rest, flags, string, allow_empty, ord, chr):
    suffix = relib._internal_match_patterns(rest, flags, string, offset, allow_empty, ord=ord, chr=chr)
    if suffix is None:
        return None
    return _MP([(offset, offset)])._add_match(suffix)

def patched(top_patterns, flags, string, offset, allow_empty=True, ord=ord, chr=chr):
    if len(top_patterns) == 0:
        return _orig(top_patterns, flags, string, offset, allow_empty, ord=ord, chr=chr)
    op, arg = top_patterns[0]
    rest = list(top_patterns)[1:]
    space = context_statespace()
    if op is P.AT and arg is P.AT_END and not (flags & re.MULTILINE):
        with ResumedTracing():
            remaining = len(string) - offset
        smt_rem = SymbolicInt._coerce_to_smt_sort(remaining)
        if space.smt_fork(smt_rem == 0):
            return _zero(offset, rest, flags, string, allow_empty, ord, chr)
        if space.smt_fork(smt_rem == 1):
            with ResumedTracing():
                nxt = ord(string[offset])
            if isinstance(nxt, int):
                ok = nxt == 10
            else:
                ok = space.smt_fork(SymbolicInt._coerce_to_smt_sort(nxt) == 10)
            if ok:
                return _zero(offset, rest, flags, string, allow_empty, ord, chr)
        return None
    if op in (P.ASSERT, P.ASSERT_NOT) and arg[0] == -1:
        lo, hi = arg[1].getwidth()
        if lo == hi:
            with ResumedTracing():
                cannot = offset - lo < 0
            if cannot:
                if op is P.ASSERT:
                    return None
                return relib._internal_match_patterns(rest, flags, string, offset, allow_empty, ord=ord, chr=chr)
    if op in (P.MAX_REPEAT, P.MIN_REPEAT):
        lo, hi, body = arg
        if relib.single_char_mask_safe(body, flags) is None and hi is not P.MAXREPEAT or \
           relib.single_char_mask_safe(body, flags) is None:
            # compound body: X{lo,hi} REST  ==  (lo>0) X X{lo-1,hi-1} REST ; (lo==0) greedy: try X X{0,hi-1} REST else REST
            if hi is not P.MAXREPEAT and hi < lo:
                return None
            def more():
                nhi = hi if hi is P.MAXREPEAT else hi - 1
                seq = list(body) + [(_NONEMPTY, offset), (op, (max(lo - 1, 0), nhi, body))] + rest
                return relib._internal_match_patterns(seq, flags, string, offset, allow_empty, ord=ord, chr=chr)
            def stop():
                return _zero(offset, rest, flags, string, allow_empty, ord, chr)
            if lo > 0:
                return more()
            if hi is not P.MAXREPEAT and hi == 0:
                return stop()
            first, second = (more, stop) if op is P.MAX_REPEAT else (stop, more)
            r = first()
            return r if r is not None else second()
    if op is _NONEMPTY:
        # guard against empty iterations looping forever: an iteration must consume
        with ResumedTracing():
            same = offset == arg
        if same:
            return None
        return _zero(offset, rest, flags, string, allow_empty, ord, chr)
    return _orig(top_patterns, flags, string, offset, allow_empty, ord=ord, chr=chr)

_NONEMPTY = object()

def _scm_safe(body, flags):
    body = list(body)
    if len(body) != 1:
        return None
    try:
        return relib.single_char_mask(body[0], flags)
    except relib.ReUnhandled:
        return None

def install():
    relib.single_char_mask_safe = _scm_safe
    relib._internal_match_patterns = patched
