from mistletoe import core_tokens as ct
from chxplug import MaskSet
class NoMatchPattern:
    def search(self, s, pos=0): return None
ct.code_pattern = NoMatchPattern()
ct.punctuation = MaskSet(ct.punctuation)
ct.unicode_whitespace = MaskSet(ct.unicode_whitespace)
ct.whitespace = MaskSet(ct.whitespace)

def core(s: str) -> int:
    """
    pre: len(s) <= 4
    pre: all(c in 'a *_.' for c in s)
    post: _ >= 0
    """
    ms = ct.find_core_tokens(s, None)
    return len(ms)

def core_u(s: str) -> int:
    """
    pre: len(s) <= 4
    post: _ >= 0
    """
    ms = ct.find_core_tokens(s, None)
    return len(ms)
