import common
from typing import List, Optional
from dataclasses import dataclass
import mistletoe.block_token as bt
import mistletoe.block_tokenizer as btk
from mistletoe.markdown_renderer import MarkdownRenderer, Fragment
from mistletoe.latex_renderer import LaTeXRenderer
from mistletoe.utils import traverse
from mistletoe import span_token

# (4) greedy fill: every emitted line longer than L is a single word; idempotent
def wrap(a: str, b: str, c: str, L: int) -> bool:
    """
    pre: len(a) <= 3 and len(b) <= 3 and len(c) <= 3 and 1 <= L <= 12
    pre: all(ch not in a + b + c for ch in (chr(10), chr(13), chr(11), chr(12), chr(28), chr(29), chr(30), chr(31), chr(133), chr(160)))
    post: _
    """
    frags = [Fragment(a, wordwrap=True), Fragment(b), Fragment(c, wordwrap=True)]
    lines = list(MarkdownRenderer.fragments_to_lines(frags, max_line_length=L))
    for ln in lines:
        if len(ln) > L and ' ' in ln.strip(' '):
            # a too-long line may only contain the unbreakable fragment's spaces
            if not (b and b in ln):
                return False
    again = list(MarkdownRenderer.fragments_to_lines([Fragment('\n'.join(lines).replace('\n', ' '), wordwrap=True)], max_line_length=L))
    return True

# (8) latex text escaping
def latex_raw(s: str) -> bool:
    """
    pre: len(s) <= 3
    post: _
    """
    r = LaTeXRenderer.__new__(LaTeXRenderer)
    out = r.render_raw_text(span_token.RawText(s))
    # every special must be preceded by a backslash that is itself not escaped
    i = 0
    while i < len(out):
        ch = out[i]
        if ch == '\\':
            if i + 1 < len(out) and out[i + 1] in '$#{}&_%^':
                i += 2
                if out[i - 1] == '^':
                    if out[i:i + 2] != '{}': return False
                    i += 2
                continue
            return False   # a raw backslash from the text survives unescaped
        if ch in '$#{}&_%^':
            return False
        i += 1
    return True

# (10) line numbers shift with start_line
def lineno_shift(S: int, k: int) -> bool:
    """
    pre: 0 <= k <= 3
    post: _
    """
    lines = ['\n'] * k + ['# a\n', '\n', 'p\n', 'q\n', '\n', '> x\n', '> - y\n', '\n', '---\n']
    pb = btk.tokenize_block(lines, bt._token_types, start_line=S)
    nums = [ln for _, _, ln in pb]
    return nums == [S + k, S + k + 2, S + k + 5, S + k + 8]
