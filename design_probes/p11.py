import common
from typing import List, Optional
from dataclasses import dataclass, field
from mistletoe.utils import traverse
from mistletoe.contrib.toc_renderer import TocRenderer
import mistletoe.block_token as bt

@dataclass
class Shape:
    kids: Optional[List['Shape']]

class Tok:
    def __init__(self, kids): self.children = kids

def build(sh, depth, acc, parent):
    kids = None
    t = Tok(None)
    acc.append((t, parent, depth))
    if sh.kids is not None:
        t.children = [build(k, depth + 1, acc, t) for k in sh.kids]
    return t

def trav(sh: Shape) -> bool:
    """
    post: _
    """
    acc = []
    root = build(sh, 0, acc, None)
    got = list(traverse(root, include_source=True))
    exp = sorted(acc, key=lambda x: x[2])   # BFS order == stable sort by depth of DFS preorder
    if len(got) != len(exp):
        return False
    return all(g.node is e[0] and g.parent is e[1] and g.depth == e[2] for g, e in zip(got, exp))

class H:
    def __init__(self, level): self.level = level; self.children = []

def toc_filter(l1: int, l2: int, l3: int, depth: int, omit: bool) -> bool:
    """
    pre: 1 <= l1 <= 6 and 1 <= l2 <= 6 and 1 <= l3 <= 6 and 1 <= depth <= 6
    post: _
    """
    with TocRenderer(depth=depth, omit_title=omit) as r:
        r.render_inner = lambda tok: 'w%d' % tok.level
        for l in (l1, l2, l3):
            r.render_heading(H(l))
        got = list(r._headings)
    exp = [(l, 'w%d' % l) for l in (l1, l2, l3) if l <= depth and not (omit and l == 1)]
    return got == exp
