"""verif-side CrossHair helpers (probe)"""
from crosshair.unicode_categories import CharMask
from crosshair.libimpl.builtinslib import SymbolicInt
from crosshair.statespace import context_statespace
from crosshair.tracers import NoTracing, ResumedTracing, is_tracing

class MaskSet:
    """Drop-in for a frozen set of single characters; membership of a symbolic
    character is decided by one SMT fork on its code point."""
    def __init__(self, chars):
        self._chars = frozenset(chars)
        cps = sorted(ord(c) for c in self._chars)
        mask = CharMask([])
        i = 0
        while i < len(cps):
            j = i
            while j + 1 < len(cps) and cps[j + 1] == cps[j] + 1:
                j += 1
            mask.maybe_add_bounds(cps[i], cps[j] + 1)
            i = j + 1
        self._mask = mask
        import z3
        self._c = z3.Int('maskset_c')
        self._tmpl = mask.smt_matches(self._c)
    def __iter__(self): return iter(self._chars)
    def __len__(self): return len(self._chars)
    def __contains__(self, ch):
        if not is_tracing():
            return ch in self._chars
        with NoTracing():
            if type(ch) is str:
                return ch in self._chars
            with ResumedTracing():
                if len(ch) != 1:
                    return False
                cp = ord(ch)
            if isinstance(cp, int) and type(cp) is int:
                return chr(cp) in self._chars
            smt = SymbolicInt._coerce_to_smt_sort(cp)
            import z3
            return context_statespace().smt_fork(z3.substitute(self._tmpl, (self._c, smt)))
