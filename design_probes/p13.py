import common
from typing import List
from mistletoe import core_tokens as ct
import mistletoe.block_token as bt
import mistletoe.block_tokenizer as btk
import mistletoe
from mistletoe import span_token, token as tokmod
from mistletoe.html_renderer import HtmlRenderer
from mistletoe.markdown_renderer import MarkdownRenderer, Fragment
from mistletoe.contrib.toc_renderer import TocRenderer
from mistletoe.utils import traverse
from p4 import SpanStr, mk_cls, M, fallback, flatten
from mistletoe import span_tokenizer as st

# a. emphasis string level N<=5
def core5(s: str) -> int:
    """
    pre: len(s) <= 5
    pre: all(c in 'a *_.' for c in s)
    post: _ >= 0
    """
    return len(ct.find_core_tokens(s, None))

# b. three abstract candidates: tiling/disjointness invariants
def tiles3(n: int,
           s1: int, e1: int, a1: int, b1: int, p1: int, i1: bool,
           s2: int, e2: int, a2: int, b2: int, p2: int, i2: bool,
           s3: int, e3: int, a3: int, b3: int, p3: int, i3: bool) -> bool:
    """
    pre: 0 <= s1 <= a1 <= b1 <= e1 <= n and s1 < e1
    pre: 0 <= s2 <= a2 <= b2 <= e2 <= n and s2 < e2
    pre: 0 <= s3 <= a3 <= b3 <= e3 <= n and s3 < e3
    pre: s1 <= s2 <= s3
    post: _
    """
    string = SpanStr(0, n)
    toks = []
    for idx, (s, e, a, b, p, i) in enumerate([(s1,e1,a1,b1,p1,i1),(s2,e2,a2,b2,p2,i2),(s3,e3,a3,b3,p3,i3)]):
        toks.append(st.ParseToken(s, e, M(s, e, a, b), string, mk_cls(idx, p, i, 1), fallback))
    tokens = sorted(toks)
    buf = []
    prev = tokens[0]
    for curr in tokens[1:]:
        prev = st.eval_tokens(prev, curr, buf)
    buf.append(prev)
    out = st.make_tokens(buf, 0, n, string, fallback)
    pos = 0
    for lo, hi in flatten(out, []):
        if lo != pos or hi < lo:
            return False
        pos = hi
    return pos == n

# c. fault injection at symbolic call count
class Boom(Exception): pass
def fault(c: int, which: bool) -> bool:
    """
    pre: 1 <= c <= 6
    post: _
    """
    calls = [0]
    class Bad(span_token.SpanToken):
        precedence = 6
        @classmethod
        def find(cls, string):
            calls[0] += 1
            if calls[0] == c:
                raise Boom()
            return []
    class BadBlock(bt.BlockToken):
        @classmethod
        def start(cls, line):
            calls[0] += 1
            if calls[0] == c:
                raise Boom()
            return False
    class R(HtmlRenderer):
        def __init__(self): super().__init__(Bad if which else BadBlock)
        def render_bad(self, t): return ''
        def render_bad_block(self, t): return ''
    try:
        with R() as r:
            r.render(bt.Document("a `code` b\n\n> q `c2`\n> ===\n\nz `y`\n"))
    except Boom:
        pass
    ok = (bt._token_types == [getattr(bt, n) for n in bt.__all__]
          and span_token._token_types == [getattr(span_token, n) for n in span_token.__all__]
          and bt.Paragraph.parse_setext is True and True
          )
    out = mistletoe.markdown("hello world\n===\n")
    # restore for next path
    ct._code_matches = []; bt.Paragraph.parse_setext = True; tokmod._root_node = None
    return ok and out == '<h1>hello world</h1>\n'

# e. greedy fill over {x, space}
def wrap2(a: str, b: str, c: str, L: int) -> bool:
    """
    pre: len(a) <= 3 and len(b) <= 3 and len(c) <= 3 and L >= 1
    pre: all(ch in 'x ' for ch in a + b + c)
    post: _
    """
    frags = [Fragment(a, wordwrap=True), Fragment(b, wordwrap=True), Fragment(c, wordwrap=True)]
    lines = list(MarkdownRenderer.fragments_to_lines(frags, max_line_length=L))
    for ln in lines:
        if len(ln) > L and ' ' in ln:
            return False
    return ' '.join(lines).split() == (a + b + c).split()

# f. toc outline
class H:
    def __init__(self, level): self.level = level; self.children = []
def toc3(l2: int, l3: int) -> bool:
    """
    pre: 2 <= l2 <= 3 and 2 <= l3 <= l2 + 1
    post: _
    """
    with TocRenderer() as r:
        r.render_inner = lambda tok: 'w'
        for l in (2, l2, l3):
            r.render_heading(H(l))
        toc = r.toc
    def shape(lst):
        return [[shape(ch) for ch in item.children if isinstance(ch, bt.List)] for item in lst.children]
    def expect(levels):
        root = []; stack = [(1, root)]
        for l in levels:
            while stack[-1][0] >= l: stack.pop()
            node = []
            parent = stack[-1][1]
            # children lists are grouped: consecutive siblings at same level share one List
            parent.append((l, node)); stack.append((l, node))
        def conv(nodes):
            return [[conv(ch)] if ch else [] for _, ch in nodes]
        return conv(root)
    return shape(toc) == expect([2, l2, l3])

# g. traverse on parent-vector trees
class Tok:
    def __init__(self): self.children = None
def trav(parents: List[int]) -> bool:
    """
    pre: len(parents) <= 4
    pre: all(0 <= p <= i for i, p in enumerate(parents))
    post: _
    """
    nodes = [Tok()]
    depth = [0]; par = [None]
    for i, p in enumerate(parents):
        t = Tok(); nodes.append(t)
        if nodes[p].children is None: nodes[p].children = []
        nodes[p].children.append(t)
        depth.append(depth[p] + 1); par.append(nodes[p])
    got = list(traverse(nodes[0], include_source=True))
    if len(got) != len(nodes): return False
    seen = []
    for g in got:
        i = [k for k, nd in enumerate(nodes) if nd is g.node]
        if len(i) != 1 or i[0] in seen: return False
        seen.append(i[0])
        if g.parent is not par[i[0]] or g.depth != depth[i[0]]: return False
    return [depth[i] for i in seen] == sorted(depth)
