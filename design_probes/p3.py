def rep(s: str) -> str:
    """
    pre: len(s) <= 2
    post: '<' not in _
    """
    return s.replace("<", "&lt;")
