import sys, time, importlib.util, collections
from crosshair.core_and_libs import analyze_function, run_checkables
from crosshair.options import AnalysisOptionSet
def main():
    path, fname, timeout = sys.argv[1], sys.argv[2], float(sys.argv[3])
    spec = importlib.util.spec_from_file_location("probe_mod", path)
    mod = importlib.util.module_from_spec(spec); sys.modules["probe_mod"] = mod
    spec.loader.exec_module(mod)
    fn = getattr(mod, fname)
    stats = collections.Counter()
    opts = AnalysisOptionSet(per_condition_timeout=timeout, report_all=True, stats=stats,
                             max_uninteresting_iterations=0)
    t = time.time()
    msgs = run_checkables(analyze_function(fn, opts))
    dt = time.time() - t
    for m in msgs:
        print(m.state.name, "|", m.message[:300])
    print("stats", dict(stats), "wall %.1fs" % dt)
main()
