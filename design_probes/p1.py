import mistletoe
from mistletoe.contrib.jira_renderer import JiraRenderer
from mistletoe.html_renderer import HtmlRenderer

def jira_total(s: str) -> str:
    """
    pre: len(s) <= 2
    post: True
    """
    return mistletoe.markdown(s, JiraRenderer)

def html_total(s: str) -> str:
    """
    pre: len(s) <= 3
    post: True
    """
    return mistletoe.markdown(s, HtmlRenderer)
