from typing import List, Tuple
from mistletoe import span_tokenizer as st

class SpanStr:
    """duck-typed 'string' that records slices instead of holding characters"""
    def __init__(self, lo, hi): self.lo, self.hi = lo, hi
    def __getitem__(self, sl):
        assert isinstance(sl, slice) and sl.step is None
        return SpanStr(self.lo + sl.start, self.lo + sl.stop)
    def __contains__(self, x): return False   # html.unescape: "if '&' not in s: return s"
    def __len__(self): return self.hi - self.lo

class Out:
    def __init__(self, kind, lo, hi, children=None):
        self.kind, self.lo, self.hi, self.children = kind, lo, hi, children

def mk_cls(idx, prec, inner, group):
    class C:
        precedence = prec
        parse_inner = inner
        parse_group = group
        def __init__(self, match):
            self.m = match
            self.idx = idx
    C.__name__ = "C%d" % idx
    return C

class M:
    def __init__(self, s, e, ps, pe): self.s, self.e, self.ps, self.pe = s, e, ps, pe
    def start(self, g=0): return self.s if g == 0 else self.ps
    def end(self, g=0): return self.e if g == 0 else self.pe

def fallback(span):
    return ("raw", span.lo, span.hi)

def flatten(tokens, acc):
    # returns list of (lo,hi) of leaf coverage in order
    for t in tokens:
        if isinstance(t, tuple):
            acc.append((t[1], t[2]))
        else:
            m = t.m
            if t.__class__.parse_inner:
                acc.append((m.s, m.ps))
                flatten(t.children, acc)
                acc.append((m.pe, m.e))
            else:
                acc.append((m.s, m.e))
    return acc

def tiles2(n: int,
           s1: int, e1: int, a1: int, b1: int, p1: int, i1: bool,
           s2: int, e2: int, a2: int, b2: int, p2: int, i2: bool) -> bool:
    """
    pre: 0 <= s1 <= a1 <= b1 <= e1 <= n and s1 < e1
    pre: 0 <= s2 <= a2 <= b2 <= e2 <= n and s2 < e2
    pre: s1 <= s2
    pre: 3 <= p1 <= 7 and 3 <= p2 <= 7
    post: _
    """
    string = SpanStr(0, n)
    C1 = mk_cls(1, p1, i1, 1); C2 = mk_cls(2, p2, i2, 1)
    t1 = st.ParseToken(s1, e1, M(s1, e1, a1, b1), string, C1, fallback)
    t2 = st.ParseToken(s2, e2, M(s2, e2, a2, b2), string, C2, fallback)
    tokens = sorted([t1, t2])
    buf = []
    prev = tokens[0]
    for curr in tokens[1:]:
        prev = st.eval_tokens(prev, curr, buf)
    buf.append(prev)
    import html
    out = st.make_tokens(buf, 0, n, string, fallback)
    cov = flatten(out, [])
    # tiling: consecutive, from 0 to n
    pos = 0
    for lo, hi in cov:
        if lo != pos or hi < lo:
            return False
        pos = hi
    return pos == n
