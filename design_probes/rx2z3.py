"""Probe: translate sre parse trees of the repo's patterns to z3 regexes; decide inclusion."""
import re, re._parser as P, sys, time, z3

def char(c): return z3.Re(z3.StringVal(chr(c)))
ANY = z3.Range(chr(0), chr(0x7f))  # probe: ASCII universe
def cls_to_re(items, negate=False):
    parts = []
    for op, a in items:
        if op is P.LITERAL: parts.append((a, a))
        elif op is P.RANGE: parts.append(a)
        elif op is P.NEGATE: negate = True
        elif op is P.CATEGORY:
            if a is P.CATEGORY_DIGIT: parts.append((48, 57))
            elif a is P.CATEGORY_SPACE: parts += [(9, 13), (28, 32)]
            elif a is P.CATEGORY_NOT_SPACE: return z3.Diff(ANY, cls_to_re([(P.CATEGORY, P.CATEGORY_SPACE)])) if not negate else None
            else: raise NotImplementedError(a)
        else: raise NotImplementedError(op)
    rs = [z3.Range(chr(lo), chr(hi)) for lo, hi in parts]
    r = rs[0] if len(rs) == 1 else z3.Union(*rs)
    return z3.Diff(ANY, r) if negate else r


def simple(op, a):
    if op is P.LITERAL: return char(a)
    if op is P.NOT_LITERAL: return z3.Diff(ANY, char(a))
    if op is P.ANY: return z3.Diff(ANY, char(10))
    if op is P.IN: return cls_to_re(a)
    if op in (P.MAX_REPEAT, P.MIN_REPEAT):
        lo, hi, sub = a
        r = tr(list(sub), EPS)
        if hi is P.MAXREPEAT:
            return z3.Concat(z3.Loop(r, lo, lo), z3.Star(r)) if lo > 0 else z3.Star(r)
        return z3.Loop(r, lo, hi)
    raise NotImplementedError((op, a))
EPS = z3.Re(z3.StringVal(""))
def tr(seq, k):
    if not seq: return k
    (op, a), rest = seq[0], seq[1:]
    if op is P.SUBPATTERN: return tr(list(a[3]) + rest, k)
    if op is P.BRANCH: return z3.Union(*[tr(list(b) + rest, k) for b in a[1]])
    if op is P.AT and a is P.AT_END:
        return z3.Intersect(tr(rest, k), z3.Option(char(10)))
    r = simple(op, a)
    t = tr(rest, k)
    return r if t is EPS else z3.Concat(r, t)

def match_lang(pattern):
    anyline = z3.Concat(z3.Star(z3.Diff(ANY, char(10))), char(10))
    return z3.Intersect(tr(list(P.parse(pattern)), z3.Star(ANY)), anyline)

sys.path.insert(0, '/repo')
import mistletoe.block_token as bt
impl = match_lang(bt.List.pattern.pattern)
spec = match_lang(r' {0,3}(?:\d{1,9}[.)]|[+\-*])(?:[ \t]*$|[ \t]+)')
s = z3.String('s')
for name, a, b in [('impl<=spec', impl, spec), ('spec<=impl', spec, impl)]:
    sol = z3.Solver(); sol.set('timeout', 60000)
    sol.add(z3.InRe(s, a), z3.Not(z3.InRe(s, b)))
    t = time.time(); r = sol.check()
    print(name, r, repr(sol.model()[s].as_string()) if str(r) == 'sat' else '', '%.2fs' % (time.time() - t))
h_impl = match_lang(bt.ListItem.pattern.pattern)
sol = z3.Solver(); sol.add(z3.InRe(s, h_impl), z3.Not(z3.InRe(s, impl))); print('ListItem<=List', sol.check(), sol.model() if str(sol.check())=='sat' else '')
