#!/venv/bin/python
"""tools/mkthorough.py <dir> : copies <dir>/<id>.evidence.json (thorough-tier evidence saved after each end-to-end
run) to /verif/evidence-thorough/ and prints the markdown table of DESIGN.md section 11.6"""
import json
import os
import shutil
import sys

src = sys.argv[1]
dst = os.path.join(os.path.dirname(os.path.dirname(os.path.abspath(__file__))), 'evidence-thorough')
os.makedirs(dst, exist_ok=True)
print('| property | wall | obligations | discharged | not started (budget) | other inconclusive | violations | paths | solver queries |')
print('|---|---|---|---|---|---|---|---|---|')
for f in sorted(os.listdir(src)):
    if not f.endswith('.evidence.json'):
        continue
    pid = f.split('.')[0]
    d = json.load(open(os.path.join(src, f)))
    if d.get('tier') != 'thorough':
        continue
    shutil.copy(os.path.join(src, f), os.path.join(dst, pid + '.json'))
    c = d['coverage']
    na = len(c.get('not_attempted', []))
    inc = [i for i in c['inconclusive'] if 'not started within the wall budget' not in i]
    print('| %s | %d s | %d | %d | %d | %d | %d | %d | %d |' % (pid, d['wall_s'], c['obligations'], c['discharged'], na, len(inc), d['violations'], c['paths'], c['solver_queries']))
