#!/bin/bash
# tools/confirm_seeded.sh <seeded-id> : applies seeded/<id>/patch.diff to /repo, runs the existing test
# suite, the demonstration and the property's quick check, and reverts /repo.  Prints a summary.
id=$1
d=/verif/seeded/$id
prop=$(/venv/bin/python -c "import json;print(json.load(open('$d/meta.json'))['property'])")
cd /repo || exit 9
git diff --quiet || { echo "/repo has local changes"; exit 9; }
git apply "$d/patch.diff" || { echo "patch does not apply"; exit 9; }
trap 'git -C /repo checkout -- . ' EXIT
echo "== tests with the change"; /venv/bin/python -m pytest -q -p no:cacheprovider 2>&1 | tail -1
echo "== demo with the change"; (cd /repo && PYTHONPATH=/repo /venv/bin/python "$d/demo.py" > /tmp/demo_$id.out 2>&1; echo "demo exit=$?")
echo "== check $prop with the change"; (cd /verif && ./check $prop --no-evidence "${@:2}" > /tmp/check_$id.out 2>&1; echo "check exit=$?"); grep -m3 "VIOLATION" /tmp/check_$id.out; tail -1 /tmp/check_$id.out
git -C /repo checkout -- .
trap - EXIT
echo "== demo without the change"; (cd /repo && PYTHONPATH=/repo /venv/bin/python "$d/demo.py" > /dev/null 2>&1; echo "demo exit=$?")
