#!/venv/bin/python
"""Regenerates MANIFEST.json from the table below (keeps it valid at all times)."""
import json, os
ROOT = os.path.dirname(os.path.dirname(os.path.abspath(__file__)))
CLAIMED = {
 # id: (design section, technique, level text, level note)
 'C08': ('5/C08', 'CrossHair symbolic execution of the live escaping kernels and render_* templates + z3',
         'bounded symbolic check: for ALL strings up to the stated length over full Unicode and all option vectors, the escaping kernels and every HtmlRenderer template emit well-formed output',
         'bounds per lemma in the evidence; CrossHair str/regex models (gated against str/re each run); composition by structural induction is prose'),
 'C14': ('5/C14', 'z3 regular-language inclusion of the compiled block-start patterns in the CommonMark grammars (lines of any length) + CrossHair on coded starts and tiny paragraphs',
         'unbounded-length inclusion queries on the live compiled patterns decide that nothing is a block start unless the spec says so; coded starts and the inline phase are checked by bounded symbolic execution',
         'code points <= U+2FFFF; oracles apply on Σmd only; translator validated against re on corpus lines each run'),
 'C16': ('5/C16', 'CrossHair symbolic execution of the live span_tokenizer resolution code on abstract candidates with unbounded integer coordinates + z3',
         'for ALL integer coordinates/precedences of 2 and 3 candidates the real eval_tokens/relation/make_tokens code tiles the source and follows the documented rule; string-level cross-check with real custom tokens',
         'abstract candidates (stubs for source string, token classes, match objects); one recorded finding excluded by a narrow predicate'),
}
NOT_APPLICABLE = {
 'C02': 'the quantifier is a fixed finite corpus of 652 concrete inputs: nothing can be made symbolic, deciding it is enumeration of concrete runs, which this technique family excludes as a deciding step',
 'C03': 'trees of ~40 blocks written out as documents of hundreds of characters; symbolic execution of the full parser costs ~1 s/path and x25 paths per free character, so the generated-document domain is out of reach by orders of magnitude (reachable parts are discharged as lemmas under C04, C13, C14)',
}
PENDING = 'not yet built in this round (solver-based check planned in DESIGN.md section 5; will be claimed when its check exists)'
ALL = ['C%02d' % i for i in range(1, 20)]
checks = []
for pid in ALL:
    if pid not in CLAIMED:
        continue
    ref, tech, text, note = CLAIMED[pid]
    checks.append({
        'property_id': pid,
        'quick_cmd': './check %s --tier quick' % pid,
        'thorough_cmd': './check %s --tier thorough' % pid,
        'evidence_file': 'evidence/%s.json' % pid,
        'replay_cmd_template': './check %s --replay {path}' % pid,
        'engine': 'chx+rx',
        'level_claimed': {'category': 'model_checking', 'text': text, 'design_ref': 'DESIGN.md section ' + ref},
        'level_note': note,
        'technique': tech,
    })
na = [{'property_id': p, 'reason': r} for p, r in NOT_APPLICABLE.items()]
na += [{'property_id': p, 'reason': PENDING} for p in ALL if p not in CLAIMED and p not in NOT_APPLICABLE]
man = {
 'version': 1,
 'setup_cmd': 'bash ./setup.sh',
 'hooks': {'guard': 'MISTLETOE_VERIF', 'enable': 'none needed: all stubs/recorders are harness-side monkeypatches; the guard name is reserved but no hook exists in /repo',
           'baseline_off_cmd': 'cd /repo && /venv/bin/python -m pytest -ra -q -p no:cacheprovider --timeout=900 --continue-on-collection-errors',
           'source_commits': [], 'add_only': True},
 'engines': [
  {'name': 'chx', 'path': 'vfy/worker.py', 'serves_properties': [c['property_id'] for c in checks],
   'kind_free_text': 'E1: CrossHair 0.0.110 symbolic execution of the live /repo functions, z3 decides every branch; lemmas = PEP-316 contracts in vfy/lemmas'},
  {'name': 'rx', 'path': 'vfy/rx.py', 'serves_properties': ['C14', 'C12', 'C18', 'C04'],
   'kind_free_text': 'E2: sre parse tree of the live compiled patterns -> z3 regular expressions; inclusion/disjointness queries over lines of any length'},
 ],
 'checks': checks,
 'not_applicable': na,
 'notes': 'Every check is ./check <id>; exit 0 = held within the stated bounds, 1 = VIOLATION (replayed on the plain interpreter), 2 = harness error. Known findings: known_findings.json.',
}
json.dump(man, open(os.path.join(ROOT, 'MANIFEST.json'), 'w'), indent=1)
print('MANIFEST: %d checks, %d not_applicable' % (len(checks), len(na)))
