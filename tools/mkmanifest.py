#!/venv/bin/python
"""Regenerates MANIFEST.json from the table below (keeps it valid at all times)."""
import json, os
ROOT = os.path.dirname(os.path.dirname(os.path.abspath(__file__)))
CLAIMED = {
 # id: (design section, technique, level text, level note)
 'C01': ('5/C01', 'CrossHair symbolic execution (z3) of the live parse-and-render pipeline on tiny symbolic documents, of every block reader for cursor progress, of one-character neighbourhoods of each construct, and of the rendering phase of every bundled renderer on real tokens with one symbolic string attribute',
         'for ALL documents within the stated bounds (full Unicode at 1 character, 14-character alphabet above), all renderers and option vectors: no exception, every path terminates; reader progress carries termination to any number of lines',
         'bounds in the evidence; Pygments and urllib.parse.quote stubbed by contract; composition (induction on lines) is prose'),
 'C04': ('5/C04', 'CrossHair symbolic execution of Quote.read / List.read hand-off (recorder on tokenize_block), dispatch order and tiny whole documents',
         'for ALL lines within the bounds the container readers hand the nested tokenizer exactly the embedded lines and start line; end-to-end on tiny documents and skeletons',
         'one recorded finding (setext heading inside a quote) excluded by a narrow predicate; tabs excluded by the property'),
 'C05': ('5/C05', 'CrossHair symbolic execution of tokenize_block with a fully symbolic line after the blank line; start-line translation with an unbounded integer',
         'for ALL fillings of the skeleton holes and ALL following lines within the bounds, the blocks of A are unaffected by what follows the blank line; line numbers translate for ALL start lines',
         'composition with C11 (scratch state) is prose'),
 'C06': ('5/C06', 'CrossHair symbolic execution of process_emphasis on an abstract delimiter stack and of find_core_tokens on symbolic strings, differential against a reference model of spec 6.2; z3 on the character classes',
         'for ALL stacks of k runs (symbolic kinds, lengths, flags) and ALL strings over {a, space, *, _, .} up to N the matches equal the spec algorithm; flanking for ALL neighbour code points',
         'reference model validated against 108 spec examples each run; bounds in the evidence'),
 'C07': ('5/C07', 'CrossHair symbolic execution of normalize_label, append_footnotes, the reference lookup and the two-phase parse with symbolic labels / placements',
         'for ALL labels over a stated finite alphabet (case-fold and whitespace variants) and ALL placements within the bounds: first definition wins, lookups agree with the reference normaliser, definitions are complete before any inline parse',
         'labels over a 14-character alphabet (str.casefold is C-level); the destination/title scanner grammar is only covered by skeletons'),
 'C08': ('5/C08', 'CrossHair symbolic execution of the live escaping kernels, the render_* templates and the rendering phase on real tokens with one symbolic string attribute + z3',
         'bounded symbolic check: for ALL strings up to the stated length over full Unicode and all option vectors, the escaping kernels and every HtmlRenderer template emit well-formed output',
         'bounds per lemma in the evidence; CrossHair str/regex models (gated against str/re each run); composition by structural induction is prose'),
 'C09': ('5/C09', 'CrossHair symbolic execution of the Markdown renderer on tiny symbolic documents, inline strings, container prefixes (symbolic integers), normal-form skeletons and spelling skeletons (one symbolic character at the places where a construct may be spelled differently)',
         'round trip (same HTML, idempotent) for ALL documents up to the bound; byte-exact inline fragments for ALL strings over a 10-character alphabet up to the bound; prefixes for ALL marker spellings',
         'the finding classes named in the property need longer inputs than the bound and are neither confirmed nor refuted'),
 'C10': ('5/C10', 'CrossHair symbolic execution of the greedy fill on words of symbolic length, of make_words, of the container budgets (unbounded integers) of tiny whole documents and of spelling skeletons with a symbolic limit',
         'for ALL word lengths and limits the fill honours the bound and keeps the words in order; the child budget stays positive for ALL limits; meaning/idempotence on tiny documents',
         'words are length-only duck strings; documents beyond the W4 bound outside'),
 'C11': ('5/C11', 'CrossHair symbolic execution of an inductive step: arbitrary (symbolic) scratch state, symbolic renderer/probe choice, symbolic fault point (parse hook or render call, call count, list position); plus solver-enumerated histories of probe documents, each executed concretely in a fresh interpreter',
         'from ANY prior scratch state and after a fault at ANY of the enumerated crash points the observational invariant (token lists default, probe documents render to their fresh-interpreter baseline) holds',
         'Inv is observational; probe set listed in the evidence'),
 'C12': ('5/C12', 'CrossHair symbolic execution of traverse / Token.children / get_ast on all tree shapes (parent vectors) and of tiny whole documents; z3 regular-language query on Heading.pattern',
         'for ALL tree shapes up to n nodes the utilities are faithful; heading level within 1..6 for lines of ANY length; list start for ALL digit strings up to the bound',
         'json is C-level: JSON round trip only on finite alphabets'),
 'C13': ('5/C13', 'CrossHair symbolic execution of tokenize_block + container readers on skeleton documents with symbolic blank-line counts and an unbounded symbolic start line',
         'for ALL start lines and ALL admitted blank-line counts every block token of every skeleton reports the line it starts on',
         'skeleton list in vfy/lemmas/c13.py'),
 'C14': ('5/C14', 'z3 regular-language inclusion of the compiled block-start patterns and the autolink pattern in the CommonMark grammars (lines of any length) + CrossHair on coded starts and tiny paragraphs',
         'unbounded-length inclusion queries on the live compiled patterns decide that nothing is a block start unless the spec says so; coded starts and the inline phase are checked by bounded symbolic execution',
         'code points <= U+2FFFF; oracles apply on Σmd only; translator validated against re on corpus lines each run'),
 'C15': ('5/C15', 'CrossHair symbolic execution of Document.__init__ line normalisation (recorder on the tokenizer), the CLI with stubbed open/stdout, and tiny whole documents',
         'for ALL texts over Σmd up to the bound the line list reaching the tokenizer is the same for every input form; CLI output equals the library output',
         'file objects modelled by their iteration contract; real file system / encodings outside'),
 'C16': ('5/C16', 'CrossHair symbolic execution of the live span_tokenizer resolution code on abstract candidates with unbounded integer coordinates + z3',
         'for ALL integer coordinates/precedences of 2 and 3 candidates the real eval_tokens/relation/make_tokens code tiles the source and follows the documented rule; string-level cross-check with real custom tokens',
         'abstract candidates (stubs for source string, token classes, match objects); one recorded finding excluded by a narrow predicate'),
 'C17': ('5/C17', 'CrossHair symbolic execution of the LaTeX escaping kernels, every render_* template, the rendering phase on real tokens with one symbolic string attribute and tiny whole documents against a balance/escape scanner',
         'for ALL text up to the bound over full Unicode the kernels escape every special; templates keep groups and environments balanced',
         'two recorded findings (image source, code language) excluded by call-site predicates; math spans set aside'),
 'C18': ('5/C18', 'CrossHair symbolic execution of the contrib overrides and of the rendering phase on real tokens with one symbolic string attribute against HtmlRenderer + z3 regular-language queries on the extension token patterns + structural override inventory',
         'overrides agree with the base for ALL inputs within the bounds; a match of the extension tokens implies the trigger text for strings of ANY length',
         'Pygments never executed symbolically (not reached without a code block)'),
 'C19': ('5/C19', 'CrossHair symbolic execution of TocRenderer.render_heading / toc with symbolic levels, depth and filter verdicts',
         'for ALL integer levels and depths the collected list equals the filtered list; for ALL outlines up to k headings the nesting equals the oracle outline',
         'headings are stubs in O1/O2; O3 goes through the real parser'),
}
NOT_APPLICABLE = {
 'C02': 'the quantifier is a fixed finite corpus of 652 concrete inputs: nothing can be made symbolic, deciding it is enumeration of concrete runs, which this technique family excludes as a deciding step',
 'C03': 'trees of ~40 blocks written out as documents of hundreds of characters; symbolic execution of the full parser costs ~1 s/path and x25 paths per free character, so the generated-document domain is out of reach by orders of magnitude (reachable parts are discharged as lemmas under C04, C13, C14)',
}
PENDING = 'not yet built in this round (solver-based check planned in DESIGN.md section 5; will be claimed when its check exists)'
ALL = ['C%02d' % i for i in range(1, 20)]
checks = []
for pid in ALL:
    if pid not in CLAIMED:
        continue
    ref, tech, text, note = CLAIMED[pid]
    checks.append({
        'property_id': pid,
        'quick_cmd': './check %s --tier quick' % pid,
        'thorough_cmd': './check %s --tier thorough' % pid,
        'evidence_file': 'evidence/%s.json' % pid,
        'replay_cmd_template': './check %s --replay {path}' % pid,
        'engine': 'chx+rx',
        'level_claimed': {'category': 'model_checking', 'text': text, 'design_ref': 'DESIGN.md section ' + ref},
        'level_note': note,
        'technique': tech,
    })
na = [{'property_id': p, 'reason': r} for p, r in NOT_APPLICABLE.items()]
na += [{'property_id': p, 'reason': PENDING} for p in ALL if p not in CLAIMED and p not in NOT_APPLICABLE]
man = {
 'version': 1,
 'setup_cmd': 'bash ./setup.sh',
 'hooks': {'guard': 'MISTLETOE_VERIF', 'enable': 'none needed: all stubs/recorders are harness-side monkeypatches; the guard name is reserved but no hook exists in /repo',
           'baseline_off_cmd': 'cd /repo && /venv/bin/python -m pytest -ra -q -p no:cacheprovider --timeout=900 --continue-on-collection-errors',
           'source_commits': [], 'add_only': True},
 'engines': [
  {'name': 'chx', 'path': 'vfy/worker.py', 'serves_properties': [c['property_id'] for c in checks],
   'kind_free_text': 'E1: CrossHair 0.0.110 symbolic execution of the live /repo functions, z3 decides every branch; lemmas = PEP-316 contracts in vfy/lemmas'},
  {'name': 'rx', 'path': 'vfy/rx.py', 'serves_properties': ['C14', 'C12', 'C18', 'C04'],
   'kind_free_text': 'E2: sre parse tree of the live compiled patterns -> z3 regular expressions; inclusion/disjointness queries over lines of any length'},
 ],
 'checks': checks,
 'not_applicable': na,
 'notes': 'Every check is ./check <id>; exit 0 = held within the stated bounds, 1 = VIOLATION (replayed on the plain interpreter), 2 = harness error. The thorough tier is a superset of the quick one with a wall budget (no new obligation is started after --budget seconds, default 600; each obligation capped at --cap seconds, default 900; --budget 0 --cap 0 runs the complete list); obligations not started are reported under coverage.not_attempted, never as discharged. Known findings: known_findings.json.',
}
json.dump(man, open(os.path.join(ROOT, 'MANIFEST.json'), 'w'), indent=1)
print('MANIFEST: %d checks, %d not_applicable' % (len(checks), len(na)))
