#!/bin/bash
# tools/confirm_record.sh <seeded-id>... : runs tools/confirm_seeded.sh for each id and records the outcome
# (exit codes, the lemmas that refuted, the first reproduced counterexample) in seeded/<id>/confirmed.txt
for id in "$@"; do
  out=/verif/seeded/$id/confirmed.txt
  { echo "# $(date -u +%FT%TZ) tools/confirm_seeded.sh $id  (verif $(git -C /verif rev-parse --short HEAD), repo $(git -C /repo rev-parse --short HEAD))"
    /verif/tools/confirm_seeded.sh $id
    echo "== lemmas that refuted (count, canaries excluded)"
    grep -E "^  (chx|rx) .* REFUTED " /tmp/check_$id.out | awk '{print $2}' | sort | uniq -c
    echo "== first reproduced counterexample"
    grep -m1 -A1 "REPRODUCED" /tmp/check_$id.out | cut -c1-600
  } > $out 2>&1
  rm -f /tmp/check_$id.out /tmp/demo_$id.out
done
echo ALLDONE >> /tmp/confirm_record.done
