#!/venv/bin/python
"""tools/mkseeded.py : folds seeded/<id>/confirmed.txt (written by tools/confirm_record.sh) into
seeded/<id>/meta.json and prints the markdown table used in DESIGN.md section 11.6.

  tools/mkseeded.py            -> update meta.json files, print table of all seeded changes
  tools/mkseeded.py C06-m3 ... -> only these ids
"""
import json
import os
import re
import sys

CANARIES = {'Q4.pipeline': 1, 'Q5.skeletons': 1, 'H1.text': 1, 'I5.ampersand': 1, 'P1.two-candidates': 1, 'L1.raw_text': 1,
            'L2.inline': 1, 'L2.code': 1}
ROOT = os.path.dirname(os.path.dirname(os.path.abspath(__file__)))


def parse_confirmed(path):
    txt = open(path).read()
    out = {}
    m = re.search(r'^# (\S+) .*\(verif (\w+), repo (\w+)\)', txt, re.M)
    if m:
        out['when'], out['verif_commit'], out['repo_commit'] = m.groups()
    m = re.search(r'== tests with the change\n(.*)', txt)
    out['tests_with_change'] = m.group(1).strip() if m else '?'
    ms = re.findall(r'demo exit=(\d+)', txt)
    out['demo_with_change'] = 'exit ' + ms[0] if ms else '?'
    out['demo_without_change'] = 'exit ' + ms[1] if len(ms) > 1 else '?'
    m = re.search(r'check exit=(\d+)', txt)
    out['quick_check_with_change'] = 'exit %s%s' % (m.group(1), ' (VIOLATION)' if 'VIOLATION property=' in txt else '') if m else '?'
    m = re.search(r'^(C\d+ \w+: obligations=.*)$', txt, re.M)
    out['check_summary'] = m.group(1) if m else '?'
    lem = re.search(r'== lemmas that refuted \(count(, canaries excluded)?\)\n((?:\s+\d+ \S+\n)*)', txt)
    ref = {b: int(a) for a, b in re.findall(r'\s+(\d+) (\S+)', lem.group(2))} if lem else {}
    if lem and not lem.group(1):
        # records written before confirm_record.sh filtered them out: every run refutes the canaries
        for k, n in CANARIES.items():
            if k in ref:
                ref[k] -= n
                if ref[k] <= 0:
                    del ref[k]
    out['lemmas_refuted'] = ref
    m = re.search(r'== first reproduced counterexample\n(.*(?:\n.*)?)', txt)
    out['first_counterexample'] = m.group(1).strip()[:500] if m else ''
    return out


def main(ids):
    base = os.path.join(ROOT, 'seeded')
    rows = []
    for d in sorted(os.listdir(base)):
        if ids and d not in ids:
            continue
        mp = os.path.join(base, d, 'meta.json')
        if not os.path.exists(mp):
            continue
        meta = json.load(open(mp))
        cp = os.path.join(base, d, 'confirmed.txt')
        if os.path.exists(cp):
            c = parse_confirmed(cp)
            meta['confirmed'] = dict(c, how='tools/confirm_seeded.sh %s : git -C /repo apply patch.diff; pytest; demo.py; ./check %s --tier quick; '
                                            'git -C /repo checkout -- .; demo.py' % (d, meta['property']))
            if not meta.get('caught_by') or meta.get('caught_by_auto'):
                meta['caught_by'] = ', '.join('%s (%d cell%s)' % (k, v, '' if v == 1 else 's') for k, v in sorted(c['lemmas_refuted'].items())) or 'NOT CAUGHT'
                meta['caught_by_auto'] = True
            json.dump(meta, open(mp, 'w'), indent=1)
        rows.append(meta)
    print('| id | change | needs | caught by (quick tier) |')
    print('|---|---|---|---|')
    for m in rows:
        print('| %s | %s | %s | %s |' % (m['id'], m.get('change', '').replace('|', '\\|'), m.get('needs_to_manifest', '').replace('|', '\\|'),
                                       m.get('caught_by', '').replace('|', '\\|')))


if __name__ == '__main__':
    main(sys.argv[1:])
