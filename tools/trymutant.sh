#!/bin/bash
# tools/trymutant.sh <worktree-with-patch-applied> <property> [extra ./check args]
# Development helper: runs a check against a scratch worktree (VERIF_REPO) instead of /repo,
# without writing evidence.  The recorded confirmation of a seeded change is always done the
# sanctioned way (git -C /repo apply; ./check; git -C /repo checkout -- .) by tools/confirm_seeded.sh.
wt=$1; prop=$2; shift 2
cd /verif
VERIF_REPO=$wt VERIF_NOCACHE= ./check $prop --no-evidence "$@"
