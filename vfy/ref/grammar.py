"""Block-start grammars written from the CommonMark 0.30 / GFM text (independent of
mistletoe's patterns).  Each is a Python regex to be used with .match() on ONE line that
ends in '\\n', over the domain Σmd (no Python-only white space), where "space or tab" is
[ \\t] and "end of line" is the final \\n."""
import re

SPEC = {
    # 4.2  1-6 '#', then space/tab or end of line
    'Heading': r' {0,3}#{1,6}(?:[ \t]|\n)',
    # 4.1  three or more matching -, _ or *, each optionally followed by spaces/tabs
    'ThematicBreak': r' {0,3}(?:-[ \t]*(?:-[ \t]*){2,}|_[ \t]*(?:_[ \t]*){2,}|\*[ \t]*(?:\*[ \t]*){2,})\n',
    # 4.5  at least three backticks (info string without backticks) or tildes
    'CodeFence': r' {0,3}(?:`{3,}[^`\n]*|~{3,}[^\n]*)\n',
    # the part of 4.5 that CodeFence.pattern alone decides (info string unconstrained)
    'CodeFenceOpen': r' {0,3}(?:`{3,}|~{3,})[^\n]*\n',
    # 5.2  bullet or 1-9 digits + . or ), followed by space/tab or end of line
    'List': r' {0,3}(?:[-+*]|[0-9]{1,9}[.)])(?:[ \t]|\n)',
    'ListItem': r' {0,3}(?:[-+*]|[0-9]{1,9}[.)])(?:[ \t]|\n)',
    # 4.3  setext underline: any number of = or any number of -, trailing spaces/tabs
    'SetextUnderline': r' {0,3}(?:=+|-+)[ \t]*\n',
    # GFM table delimiter row: cells of :?-+:? separated by pipes, optional leading/trailing pipe
    'TableDelimiter': r'[ \t]*\|?[ \t]*:?-+:?[ \t]*(?:\|[ \t]*:?-+:?[ \t]*)*\|?[ \t]*\n',
    # 5.1  block quote marker
    'Quote': r' {0,3}>',
}
COMPILED = {k: re.compile(v) for k, v in SPEC.items()}
