"""Reference scanner for ONE link reference definition at the start of a paragraph, written from
CommonMark 0.30 sections 4.7 and 6.3 (link label, link destination, link title), independent of
mistletoe's Footnote.match_reference.  Input: the paragraph text (no blank line inside; line ends
are '\\n'; the text ends with '\\n').  Output: None, or (label, dest, title, end) with

  label : raw text between the brackets
  dest  : raw destination (without the angle brackets if it was written <...>)
  title : raw title without its delimiters ('' if there is none)
  end   : index just after the line ending that terminates the definition
"""

WS = ' \t'


def _skip_ws_one_eol(s, i):
    """spaces / tabs including up to one line ending; returns (new index, saw a line ending)"""
    n = len(s)
    while i < n and s[i] in WS:
        i += 1
    eol = False
    if i < n and s[i] == '\n':
        eol = True
        i += 1
        while i < n and s[i] in WS:
            i += 1
    return i, eol


def _label(s, i):
    n = len(s)
    sp = 0
    while i < n and s[i] == ' ' and sp < 3:
        i += 1
        sp += 1
    if i >= n or s[i] != '[':
        return None
    j = i + 1
    esc = False
    while j < n:
        c = s[j]
        if esc:
            esc = False
        elif c == '\\':
            esc = True
        elif c == '[':
            return None
        elif c == ']':
            break
        j += 1
    if j >= n:
        return None
    label = s[i + 1:j]
    if label.strip(' \t\n') == '' or len(label) > 999:
        return None
    return label, j + 1


def _dest(s, i):
    n = len(s)
    if i >= n:
        return None
    if s[i] == '<':
        j = i + 1
        esc = False
        while j < n:
            c = s[j]
            if c == '\n':
                return None
            if esc:
                esc = False
            elif c == '\\':
                esc = True
            elif c == '<':
                return None
            elif c == '>':
                return s[i + 1:j], j + 1
            j += 1
        return None
    j = i
    depth = 0
    esc = False
    while j < n:
        c = s[j]
        if c == ' ' or ord(c) < 32 or ord(c) == 127:
            break
        if esc:
            esc = False
        elif c == '\\':
            esc = True
        elif c == '(':
            depth += 1
        elif c == ')':
            if depth == 0:
                return None
            depth -= 1
        j += 1
    if j == i or depth != 0:
        return None
    return s[i:j], j


def _title(s, i):
    n = len(s)
    if i >= n or s[i] not in '"\'(':
        return None
    close = {'"': '"', "'": "'", '(': ')'}[s[i]]
    j = i + 1
    esc = False
    while j < n:
        c = s[j]
        if esc:
            esc = False
        elif c == '\\':
            esc = True
        elif c == close:
            return s[i + 1:j], j + 1
        elif c == '(' and close == ')':
            return None
        j += 1
    return None


def _rest_of_line_blank(s, i):
    n = len(s)
    while i < n and s[i] in WS:
        i += 1
    if i >= n:
        return i
    if s[i] == '\n':
        return i + 1
    return None


def parse_definition(s):
    lab = _label(s, 0)
    if lab is None:
        return None
    label, i = lab
    if i >= len(s) or s[i] != ':':
        return None
    i, _ = _skip_ws_one_eol(s, i + 1)
    d = _dest(s, i)
    if d is None:
        return None
    dest, after_dest = d
    # without title: the rest of the destination's line must be blank
    end_no_title = _rest_of_line_blank(s, after_dest)
    # with title: separated from the destination by white space (possibly one line ending)
    j, eol = _skip_ws_one_eol(s, after_dest)
    if j > after_dest:
        t = _title(s, j)
        if t is not None:
            title, after_title = t
            end = _rest_of_line_blank(s, after_title)
            if end is not None:
                return label, dest, title, end
    if end_no_title is not None:
        return label, dest, '', end_no_title
    return None


def validate(corpus_path):
    """the reference agrees with the spec's own examples of section 4.7 on whether the first
    paragraph starts with a definition and on its destination / title (as far as the expected HTML shows them)"""
    import json
    import re
    d = json.load(open(corpus_path))
    n = 0
    bad = []
    for ex in d:
        if ex['section'] != 'Link reference definitions':
            continue
        md = ex['markdown']
        if not md.lstrip(' ').startswith('[') or md.startswith('    '):
            continue
        para = md.split('\n\n')[0] + '\n'
        if re.match(r' {0,3}\[(?:[^\]\\]|\\.)*\]:', para) is None:
            continue            # the first paragraph is a use, not a definition
        r = parse_definition(para)
        n += 1
        # if the expected output still shows the literal '[label]:' text, it was not a definition
        first_label = re.match(r' {0,3}\[((?:[^\]\\]|\\.)*)\]', md)
        literal = first_label is not None and ('[' + first_label.group(1) + ']:') in ex['html'].replace('&quot;', '"')
        if literal and r is not None and ex['example'] not in ():
            bad.append((ex['example'], md, 'reference accepts, spec output keeps the text'))
        if (not literal) and r is None:
            bad.append((ex['example'], md, 'reference rejects, spec output consumed the definition'))
    return n, bad
