"""Reference model of CommonMark 0.30 section 6.2 (emphasis and strong emphasis), written from
the specification text, independent of mistletoe's code.

Two levels:
  * runs(text)            -> delimiter runs with their can-open / can-close flags (flanking rules)
  * process(runs)         -> the "process emphasis" procedure on abstract runs
  * matches(text)         -> sorted [(start, end, strong)]  (start = first consumed opener char,
                             end = one past the last consumed closer char)
  * to_html(text)         -> the inline HTML for a text that contains no other inline construct

Validated against the vendored spec examples by validate() (run by the C06 check on every run).
"""
import unicodedata

ASCII_PUNCT = set('!"#$%&\'()*+,-./:;<=>?@[\\]^_`{|}~')


def is_unicode_whitespace(ch):
    # spec 2.1: any code point in the Unicode Zs general category, or tab, line feed, form feed, carriage return
    return ch in '\t\n\x0c\r' or unicodedata.category(ch) == 'Zs'


def is_punctuation(ch):
    # spec 2.1 (0.30): an ASCII punctuation character or anything in the general Unicode categories
    # Pc, Pd, Pe, Pf, Pi, Po, or Ps
    return ch in ASCII_PUNCT or unicodedata.category(ch).startswith('P')


def flanking(before, after, ch):
    """(can_open, can_close) of a delimiter run of character ch between `before` and `after`
    (beginning and end of line count as Unicode whitespace)"""
    ws_b, ws_a = is_unicode_whitespace(before), is_unicode_whitespace(after)
    pu_b, pu_a = is_punctuation(before), is_punctuation(after)
    left = (not ws_a) and ((not pu_a) or ws_b or pu_b)
    right = (not ws_b) and ((not pu_b) or ws_a or pu_a)
    if ch == '*':
        return left, right
    return (left and ((not right) or pu_b)), (right and ((not left) or pu_a))


def runs(text):
    """[(ch, start, end, can_open, can_close)] for maximal runs of * and _ (no escapes, no code spans)"""
    out = []
    i = 0
    n = len(text)
    while i < n:
        c = text[i]
        if c == '*' or c == '_':
            j = i
            while j < n and text[j] == c:
                j += 1
            before = text[i - 1] if i > 0 else ' '
            after = text[j] if j < n else ' '
            op, cl = flanking(before, after, c)
            out.append((c, i, j, op, cl))
            i = j
        else:
            i += 1
    return out


def process(rs):
    """rs: [(ch, start, end, can_open, can_close)] -> sorted [(start, end, strong)]"""
    st = [dict(ch=ch, s=s, e=e, n=e - s, orig=e - s, op=op, cl=cl) for ch, s, e, op, cl in rs]
    out = []
    bottoms = {}          # (ch, closer can open, closer original length mod 3) -> stack element or None
    pos = 0
    while pos < len(st):
        c = st[pos]
        if not c['cl']:
            pos += 1
            continue
        key = (c['ch'], c['op'], c['orig'] % 3)
        bottom = bottoms.get(key)
        j = pos - 1
        found = None
        while j >= 0 and st[j] is not bottom:
            o = st[j]
            if o['ch'] == c['ch'] and o['op']:
                both = (o['op'] and o['cl']) or (c['op'] and c['cl'])
                bad = both and (o['orig'] + c['orig']) % 3 == 0 and not (o['orig'] % 3 == 0 and c['orig'] % 3 == 0)
                if not bad:
                    found = j
                    break
            j -= 1
        if found is not None:
            o = st[found]
            k = 2 if (o['n'] >= 2 and c['n'] >= 2) else 1
            out.append((o['e'] - k, c['s'] + k, k == 2))
            o['e'] -= k
            o['n'] -= k
            c['s'] += k
            c['n'] -= k
            del st[found + 1:pos]
            pos = found + 1
            if o['n'] == 0:
                del st[found]
                pos -= 1
            if c['n'] == 0:
                del st[pos]
        else:
            bottoms[key] = st[pos - 1] if pos > 0 else None
            if not c['op']:
                del st[pos]
            else:
                pos += 1
    return sorted(out)


def matches(text):
    return process(runs(text))


def to_html(text, escape=None):
    ms = matches(text)
    opening = {}
    closing = {}
    dead = set()
    for s, e, strong in ms:
        k = 2 if strong else 1
        tag = 'strong' if strong else 'em'
        opening[s] = '<%s>' % tag
        closing[e - k] = '</%s>' % tag
        for i in list(range(s, s + k)) + list(range(e - k, e)):
            dead.add(i)
    out = []
    for i, ch in enumerate(text):
        if i in opening:
            out.append(opening[i])
        if i in closing:
            out.append(closing[i])
        if i not in dead:
            out.append(escape(ch) if escape else ch)
    return ''.join(out)


def validate(corpus_path):
    """run the reference on the spec's emphasis examples that contain no other inline construct;
    returns (checked, [mismatches])"""
    import json
    import html as _html
    d = json.load(open(corpus_path))
    checked = 0
    bad = []
    for ex in d:
        if ex['section'] != 'Emphasis and strong emphasis':
            continue
        md = ex['markdown'].rstrip('\n')
        if any(c in md for c in '`[]<>\\&!\n') or md.startswith(('-', '+', '#', '>', '    ')) or md.strip('*_ ') == '' \
                or md[:2] in ('* ', '_ ') and False:
            continue
        if md.startswith(('* ', '*\t')):
            continue
        want = ex['html'].strip()
        got = '<p>' + to_html(md.strip(), lambda c: _html.escape(c, quote=False).replace('"', '&quot;')) + '</p>'
        checked += 1
        if got != want:
            bad.append((ex['example'], md, want, got))
    return checked, bad
