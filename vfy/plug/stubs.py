"""Environment stubs (harness side).  Each stub states the contract it stands for and has
a concrete self-test against the real function, run by the gate."""
import re
import urllib.parse

_real_quote = urllib.parse.quote
ALWAYS_SAFE = 'ABCDEFGHIJKLMNOPQRSTUVWXYZabcdefghijklmnopqrstuvwxyz0123456789_.-~'
_masks = {}
_installed = []


def _safe_set(safe):
    if safe not in _masks:
        chars = set(ALWAYS_SAFE) | set(safe)
        try:
            from .maskset import MaskSet
            _masks[safe] = MaskSet(chars)
        except ImportError:          # plain interpreter (replay): ordinary set
            _masks[safe] = frozenset(chars)
    return _masks[safe]


def _is_concrete(x):
    # under CrossHair, type() lies about proxies; look at the real type with tracing off
    try:
        from crosshair.tracers import NoTracing
    except ImportError:
        return True
    with NoTracing():
        return type(x) is str


def quote_stub(string, safe='/', encoding=None, errors=None):
    """Contract of urllib.parse.quote for str input without lone surrogates: characters in
    A-Za-z0-9_.-~ and in `safe` are copied; every other character becomes one or more
    %XX triplets (upper-case hex).  The stub emits the fixed triplet '%EF' for them: the
    callers under analysis never look inside a triplet."""
    if _is_concrete(string):
        return _real_quote(string, safe=safe, encoding=encoding, errors=errors)
    ss = _safe_set(safe)
    out = []
    for ch in string:
        if ch in ss:
            out.append(ch)
        else:
            out.append('%EF')
    return ''.join(out)


def install_quote():
    """replace quote in urllib.parse and in the mistletoe modules that imported it by name"""
    import vfy.lemma as L
    if L.CONCRETE or _installed:
        return
    import mistletoe.html_renderer as hr
    import mistletoe.latex_renderer as lr
    urllib.parse.quote = quote_stub
    hr.quote = quote_stub
    lr.quote = quote_stub
    _installed.append('quote')


def selftest_quote(safes=('/#:()*?=%@+,&;',)):
    bad = 0
    n = 0
    trip = re.compile(r'(?:%[0-9A-F]{2})+\Z')
    for safe in safes:
        ss = set(ALWAYS_SAFE) | set(safe)
        for cp in range(0x110000):
            if 0xD800 <= cp <= 0xDFFF:
                continue
            ch = chr(cp)
            real = _real_quote(ch, safe=safe)
            n += 1
            if ch in ss:
                if real != ch:
                    bad += 1
            elif not trip.match(real):
                bad += 1
        # multi-character: quote is a per-character homomorphism
        for s in ('a b', '<"&>', 'é%41', '/x?y=z#f', ''):
            n += 1
            if _real_quote(s, safe=safe) != ''.join(_real_quote(c, safe=safe) for c in s):
                bad += 1
    return {'cases': n, 'disagreements': bad}


SURROGATES = None


def no_surrogates(s):
    """lone surrogates are not Unicode scalar values (str.encode('utf-8') rejects them)"""
    for ch in s:
        if '\ud800' <= ch <= '\udfff':
            return False
    return True
