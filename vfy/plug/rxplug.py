"""Probe: teach CrossHair's symbolic regex matcher back-references to finite groups
by expanding them into an ordered alternation (bounded by MAXRUN)."""
import re, re._parser as P
from crosshair.libimpl import relib

MAXRUN = 8
_orig_parse = P.parse

def _finite_strings(body):
    body = list(body)
    if len(body) != 1:
        return None
    op, arg = body[0]
    if op is P.LITERAL:
        return [chr(arg)]
    if op is P.IN:
        out = []
        for o, a in arg:
            if o is P.LITERAL:
                out.append(chr(a))
            else:
                return None
        return out
    if op is P.MAX_REPEAT:
        lo, hi, sub = arg
        sub = list(sub)
        if len(sub) == 1 and sub[0][0] is P.LITERAL:
            c = chr(sub[0][1])
            hi = min(hi, MAXRUN)
            return [c * k for k in range(hi, lo - 1, -1) if k >= 1]   # greedy: longest first
    return None

def _has_groupref(seq):
    for op, arg in seq:
        if op is P.GROUPREF:
            return True
        if op in (P.MAX_REPEAT, P.MIN_REPEAT):
            if _has_groupref(arg[2]): return True
        elif op is P.SUBPATTERN:
            if _has_groupref(arg[3]): return True
        elif op is P.BRANCH:
            if any(_has_groupref(b) for b in arg[1]): return True
        elif op in (P.ASSERT, P.ASSERT_NOT):
            if _has_groupref(arg[1]): return True
    return False

def _find_group(seq, g):
    for op, arg in seq:
        if op is P.SUBPATTERN:
            if arg[0] == g: return arg[3]
            r = _find_group(arg[3], g)
            if r is not None: return r
        elif op in (P.MAX_REPEAT, P.MIN_REPEAT):
            r = _find_group(arg[2], g)
            if r is not None: return r
        elif op is P.BRANCH:
            for b in arg[1]:
                r = _find_group(b, g)
                if r is not None: return r
    return None

def _refs(seq, acc):
    for op, arg in seq:
        if op is P.GROUPREF: acc.add(arg)
        elif op in (P.MAX_REPEAT, P.MIN_REPEAT): _refs(arg[2], acc)
        elif op is P.SUBPATTERN: _refs(arg[3], acc)
        elif op is P.BRANCH:
            for b in arg[1]: _refs(b, acc)
    return acc

def _inst(seq, g, w):
    lits = [(P.LITERAL, ord(c)) for c in w]
    out = []
    for op, arg in seq:
        if op is P.GROUPREF and arg == g:
            out.extend(lits)
        elif op is P.SUBPATTERN:
            gn, a, b, body = arg
            if gn == g:
                out.append((op, (gn, a, b, list(lits))))
            else:
                out.append((op, (gn, a, b, _inst(body, g, w))))
        elif op in (P.MAX_REPEAT, P.MIN_REPEAT):
            out.append((op, (arg[0], arg[1], _inst(arg[2], g, w))))
        elif op is P.BRANCH:
            out.append((op, (arg[0], [_inst(b, g, w) for b in arg[1]])))
        else:
            out.append((op, arg))
    return out

_cache = {}
def parse(pattern, flags=0):
    key = (pattern, flags)
    if key in _cache:
        return list(_cache[key])
    tree = _orig_parse(pattern, flags)
    seq = list(tree)
    if _has_groupref(seq):
        for g in sorted(_refs(seq, set())):
            body = _find_group(seq, g)
            words = _finite_strings(body) if body is not None else None
            if not words:
                _cache[key] = tree
                return tree
            seq = [(P.BRANCH, (None, [_inst(seq, g, w) for w in words]))]
        _cache[key] = seq
        return list(seq)
    _cache[key] = tree
    return tree

def install():
    relib.parse = parse
