"""Repair of CrossHair 0.0.110's symbolic regex matcher (verification-side, trusted
base, gated on every run by plug/gate.py against the real `re`).

CrossHair does not run `re` on a symbolic string; `crosshair.libimpl.relib.
_internal_match_patterns` interprets the sre parse tree itself.  It disagrees with
`re` on patterns mistletoe uses:

 (a) `$` without MULTILINE must also match just before a final newline;
 (b) a fixed-width look-behind that cannot rewind past offset 0 *fails*; for a
     negative look-behind that means the assertion as a whole succeeds;
 (c) a repeat `X{lo,hi}` whose body X is not a single character class is matched
     without its continuation, so lazy/greedy choices inside X never see what
     follows (no backtracking into the body);
 (d) a capturing group inside a repeat must report its LAST iteration;
 (e) `^` at offset 0 whose continuation fails went on to look at string[-1].

All four are handled here; everything else is delegated to the original.
"""
import re
import re._parser as P
from crosshair.libimpl import relib
from crosshair.libimpl.builtinslib import SymbolicInt
from crosshair.statespace import context_statespace
from crosshair.tracers import ResumedTracing

_orig = relib._internal_match_patterns
_MP = relib._MatchPart
_NONEMPTY = object()          # pseudo-op: the current iteration must have consumed input
_installed = False


def _after(offset, rest, flags, string, allow_empty, ord, chr):
    """zero-width success at `offset`, then match `rest`"""
    suffix = relib._internal_match_patterns(rest, flags, string, offset, allow_empty, ord=ord, chr=chr)
    if suffix is None:
        return None
    return _MP([(offset, offset)])._add_match(suffix)


def _single(body, flags, ord, chr):
    body = list(body)
    if len(body) != 1:
        return False
    try:
        return relib.single_char_mask(body[0], flags, ord=ord, chr=chr) is not None
    except relib.ReUnhandled:
        return False


def patched(top_patterns, flags, string, offset, allow_empty=True, ord=ord, chr=chr):
    if len(top_patterns) == 0:
        return _orig(top_patterns, flags, string, offset, allow_empty, ord=ord, chr=chr)
    op, arg = top_patterns[0]
    rest = list(top_patterns)[1:]
    space = context_statespace()

    # (a) `$`
    if op is P.AT and arg is P.AT_END and not (flags & re.MULTILINE):
        with ResumedTracing():
            remaining = len(string) - offset
        if isinstance(remaining, int) and type(remaining) is int:
            at_end = remaining == 0
            one_left = remaining == 1
        else:
            smt_rem = SymbolicInt._coerce_to_smt_sort(remaining)
            at_end = space.smt_fork(smt_rem == 0)
            one_left = (not at_end) and space.smt_fork(smt_rem == 1)
        if at_end:
            return _after(offset, rest, flags, string, allow_empty, ord, chr)
        if one_left:
            with ResumedTracing():
                nxt = ord(string[offset])
            if isinstance(nxt, int) and type(nxt) is int:
                ok = nxt == 10
            else:
                ok = space.smt_fork(SymbolicInt._coerce_to_smt_sort(nxt) == 10)
            if ok:
                return _after(offset, rest, flags, string, allow_empty, ord, chr)
        return None

    # (a') `^`: at offset 0 the original falls through to string[-1]
    if op is P.AT and arg in (P.AT_BEGINNING, P.AT_BEGINNING_STRING):
        with ResumedTracing():
            at0 = offset == 0
        if isinstance(at0, bool):
            is0 = at0
        else:
            is0 = space.smt_fork(SymbolicInt._coerce_to_smt_sort(offset) == 0)
        if is0:
            return _after(offset, rest, flags, string, allow_empty, ord, chr)
        if arg is P.AT_BEGINNING and (flags & re.MULTILINE):
            with ResumedTracing():
                prev = ord(string[offset - 1])
            if type(prev) is int:
                ok = prev == 10
            else:
                ok = space.smt_fork(SymbolicInt._coerce_to_smt_sort(prev) == 10)
            if ok:
                return _after(offset, rest, flags, string, allow_empty, ord, chr)
        return None

    # (b) look-behind at the left edge
    if op in (P.ASSERT, P.ASSERT_NOT) and arg[0] == -1:
        lo, hi = arg[1].getwidth()
        if lo == hi:
            with ResumedTracing():
                cannot = bool(offset - lo < 0)
            if cannot:
                if op is P.ASSERT:
                    return None
                return relib._internal_match_patterns(rest, flags, string, offset, allow_empty, ord=ord, chr=chr)

    # (c) repeats of a compound body
    if op in (P.MAX_REPEAT, P.MIN_REPEAT):
        lo, hi, body = arg
        if not _single(body, flags, ord, chr):
            if hi is not P.MAXREPEAT and hi < lo:
                return None

            def more():
                nhi = hi if hi is P.MAXREPEAT else hi - 1
                guard = [(_NONEMPTY, offset)] if lo == 0 else []
                seq = list(body) + guard + [(op, (max(lo - 1, 0), nhi, body))] + rest
                return relib._internal_match_patterns(seq, flags, string, offset, allow_empty, ord=ord, chr=chr)

            def stop():
                return _after(offset, rest, flags, string, allow_empty, ord, chr)

            if lo > 0:
                return more()
            if hi is not P.MAXREPEAT and hi == 0:
                return stop()
            first, second = (more, stop) if op is P.MAX_REPEAT else (stop, more)
            r = first()
            return r if r is not None else second()

    if op is _NONEMPTY:
        with ResumedTracing():
            same = bool(offset == arg)
        if same:
            return None
        return _after(offset, rest, flags, string, allow_empty, ord, chr)

    # (d) last iteration of a repeated group wins
    if op is relib._END_GROUP_MARKER:
        group_num, begin = arg
        # re-implemented (instead of delegated) so that an inner, later iteration is kept
        suffix = relib._internal_match_patterns(rest, flags, string, offset, allow_empty, ord=ord, chr=chr)
        if suffix is None:
            return None
        match = _MP([(offset, offset)])._add_match(suffix)
        while len(match._groups) <= group_num:
            match._groups.append(None)
        if match._groups[group_num] is None:
            match._groups[group_num] = (begin, offset)
        return match

    return _orig(top_patterns, flags, string, offset, allow_empty, ord=ord, chr=chr)


def install():
    global _installed
    if _installed:
        return
    relib._internal_match_patterns = patched
    _installed = True
