"""Verification-side CrossHair plug-ins (trusted base; see DESIGN.md section 2).

install(deny=...) activates, in this order:
  rxplug  - back-references to finite groups are expanded into ordered alternations
  rxfix   - repairs of the symbolic regex matcher ($, look-behind at 0, compound repeats,
            last iteration of a repeated group)
  subfix  - Pattern.sub on a symbolic string walks finditer over the WHOLE string
            (CrossHair recurses on the remainder, which loses look-behind/anchor context)
  deny    - patterns on which the gate found a disagreement are forced through
            CrossHair's sound fallback (realise the string, call the real `re`)
  MaskSet - one SMT fork per membership test in mistletoe's big character sets
"""
import re

_state = {'installed': False, 'deny': set()}


def install(deny=(), masksets=True):
    from crosshair.libimpl import relib
    from crosshair import core
    from . import rxplug, rxfix, strfix
    _state['deny'] = set((p, int(f)) for p, f in deny)
    if _state['installed']:
        return
    rxplug.install()
    rxfix.install()
    strfix.install()
    inner_parse = relib.parse

    def parse(pattern, flags=0):
        if (pattern, int(flags)) in _state['deny']:
            raise relib.ReUnhandled('denied by the regex gate')
        return inner_parse(pattern, flags)
    relib.parse = parse

    from crosshair.tracers import NoTracing
    from crosshair.util import CrossHairValue
    from crosshair.core import realize

    def _subn(self, repl, string, count=0):
        if not isinstance(self, re.Pattern):
            raise TypeError
        if isinstance(repl, (str, bytes)):
            def replfn(m):
                return m.expand(repl)
        elif callable(repl):
            replfn = repl
        else:
            raise TypeError
        if not isinstance(count, int):
            raise TypeError
        with NoTracing():
            concrete = not isinstance(string, CrossHairValue)
            denied = (self.pattern, int(self.flags)) in _state['deny']
        if concrete or denied:
            with NoTracing():
                return re.Pattern.subn(self, repl, realize(string), realize(count))
        parts = []
        pos = 0
        n = 0
        for m in self.finditer(string):
            parts.append(string[pos:m.start()])
            parts.append(replfn(m))
            pos = m.end()
            n += 1
            if count and n >= count:
                break
        parts.append(string[pos:])
        return (''.join(parts), n)

    def _sub(self, repl, string, count=0):
        return _subn(self, repl, string, count)[0]

    relib._subn = _subn
    relib._sub = _sub
    core._PATCH_REGISTRATIONS[re.Pattern.sub] = _sub
    core._PATCH_REGISTRATIONS[re.Pattern.subn] = _subn
    if masksets:
        from .maskset import install_on_mistletoe
        install_on_mistletoe()
    _state['installed'] = True
