"""MaskSet: a drop-in for mistletoe's big character sets (`core_tokens.punctuation`,
`unicode_whitespace`, `whitespace`).  Built from the LIVE set's contents on every run;
membership of a symbolic character is one SMT fork on a code-point range predicate
instead of hashing (= realising) the symbolic string.  Self-tested over all
1 114 112 code points by plug/gate.py."""
import z3
from crosshair.unicode_categories import CharMask
from crosshair.libimpl.builtinslib import SymbolicInt
from crosshair.statespace import context_statespace
from crosshair.tracers import NoTracing, ResumedTracing, is_tracing


class MaskSet:
    def __init__(self, chars):
        self._chars = frozenset(chars)
        cps = sorted(ord(c) for c in self._chars)
        mask = CharMask([])
        i = 0
        while i < len(cps):
            j = i
            while j + 1 < len(cps) and cps[j + 1] == cps[j] + 1:
                j += 1
            mask.maybe_add_bounds(cps[i], cps[j] + 1)
            i = j + 1
        self._mask = mask
        self._c = z3.Int('maskset_c')
        self._tmpl = mask.smt_matches(self._c)

    def __iter__(self):
        return iter(self._chars)

    def __len__(self):
        return len(self._chars)

    def __eq__(self, other):
        if isinstance(other, MaskSet):
            return self._chars == other._chars
        return self._chars == other

    def __hash__(self):
        return hash(self._chars)

    def covers(self, cp):
        return self._mask.covers(cp)

    def __contains__(self, ch):
        if not is_tracing():
            return ch in self._chars
        with NoTracing():
            if type(ch) is str:
                return ch in self._chars
            with ResumedTracing():
                if len(ch) != 1:
                    return False
                cp = ord(ch)
            if type(cp) is int:
                return chr(cp) in self._chars
            smt = SymbolicInt._coerce_to_smt_sort(cp)
            return context_statespace().smt_fork(z3.substitute(self._tmpl, (self._c, smt)))


def install_on_mistletoe():
    """Replace the three live sets (and the aliases imported elsewhere) by MaskSets."""
    from mistletoe import core_tokens as ct
    import mistletoe.block_token as bt
    done = {}
    for name in ('punctuation', 'unicode_whitespace', 'whitespace'):
        live = getattr(ct, name)
        if not isinstance(live, MaskSet):
            setattr(ct, name, MaskSet(live))
        done[name] = len(getattr(ct, name))
    if hasattr(bt, 'whitespace'):
        bt.whitespace = ct.whitespace
    return done
