"""Repairs of CrossHair 0.0.110 string models that the str-method gate showed to
disagree with `str` (both re-checked by plug/gate.py on every run):

 * str.expandtabs: CrossHair replaces every tab by `tabsize` spaces; the real method
   pads to the next tab stop and resets the column at line ends.
 * Match.expand: an unmatched group expands to '' (CrossHair concatenates None).
"""
from crosshair.libimpl import relib
from crosshair.libimpl.builtinslib import AnySymbolicStr

_done = False


def _expandtabs(self, tabsize=8):
    if not isinstance(tabsize, int):
        raise TypeError
    out = []
    col = 0
    for ch in self:
        if ch == '\t':
            if tabsize > 0:
                n = tabsize - col % tabsize
                out.append(' ' * n)
                col += n
        elif ch == '\n' or ch == '\r':
            out.append(ch)
            col = 0
        else:
            out.append(ch)
            col += 1
    return ''.join(out)


def install():
    global _done
    if _done:
        return
    AnySymbolicStr.expandtabs = _expandtabs

    def expand(self, template):
        # same algorithm, but None groups expand to ''
        backref_re = relib._BACKREF_STR_RE if isinstance(template, str) else relib._BACKREF_BYTES_RE
        from crosshair.tracers import NoTracing
        from crosshair.core import realize
        import re
        with NoTracing():
            template = realize(template)
            match = backref_re.fullmatch(template)
            if match is None:
                return template
            prefix, num, namednum, named, _, suffix = match.groups()
        if num or namednum:
            replacement = self.group(int(num or namednum))
        elif named:
            replacement = self.group(named)
        else:
            raise re.error
        if replacement is None:
            replacement = '' if isinstance(template, str) else b''
        return prefix + replacement + self.expand(suffix)
    relib._Match.expand = expand
    _done = True
