"""Differential gate for the plug-ins (run on every check; result goes into the evidence).

 * regex gate: every compiled pattern found in the live mistletoe modules (plus extra
   patterns a lemma names) is driven through CrossHair's *symbolic* matcher -- as
   repaired by rxfix/rxplug -- on CrossHair's own string type holding concrete content,
   and through the real `re`, for every string up to a length bound over the pattern's
   own alphabet; span and groups are compared for each operation mistletoe uses
   (match / search / fullmatch / finditer / sub / split).  One disagreement puts the
   pattern on the deny list (CrossHair's sound fallback: realise + real `re`).
 * MaskSet gate: membership equals the live set's for all 1 114 112 code points.
 * str-method gate: CrossHair's models of the str methods mistletoe calls vs `str`.

Usage: python -m vfy.plug.gate [--budget N] [--jobs J] [--only substr] [--extra PATTERN ...]
prints one JSON object.
"""
import itertools
import json
import re
import re._parser as P
import sys
import time

# ops used on each pattern by mistletoe (default: match)
OPS = {
    'core_tokens.code_pattern': ['search'],
    'span_token.InlineCode.pattern': ['search'],
    'span_token.Strikethrough.pattern': ['finditer'],
    'span_token.AutoLink.pattern': ['finditer'],
    'span_token.EscapeSequence.pattern': ['finditer', 'sub'],
    'span_token.LineBreak.pattern': ['finditer'],
    'span_token.HtmlSpan.pattern': ['finditer'],
    'span_token.XWikiBlockMacroStart.pattern': ['finditer'],
    'span_token.XWikiBlockMacroEnd.pattern': ['finditer'],
    'latex_token.Math.pattern': ['finditer'],
    'contrib.github_wiki.GithubWiki.pattern': ['finditer'],
    'block_token.Table.delimiter_row_pattern': ['fullmatch'],
    'block_token.Table.column_align_pattern': ['finditer'],
    'block_token.TableRow.split_pattern': ['split'],
    'block_token.TableRow.escaped_pipe_pattern': ['sub'],
    'block_token.HtmlBlock.multiblock': ['match'],
    'block_token.HtmlBlock.predefined': ['match'],
    'block_token.HtmlBlock.custom_tag': ['match'],
    'markdown_renderer.MarkdownRenderer._whitespace': ['split'],
    'markdown_renderer.BlankLine.pattern': ['match'],
    'span_tokenizer._markdown_charref': ['finditer'],
    'base_renderer.BaseRenderer._parse_name': ['finditer'],
}
SUB_REPL = {
    'span_token.EscapeSequence.pattern': r'\1',
    'block_token.TableRow.escaped_pipe_pattern': '\\1|',
}
# alphabets: characters that steer the pattern + one inert letter; kept small on purpose
ALPH = {
    'core_tokens.code_pattern': '`\\a \n',
    'span_token.InlineCode.pattern': '`\\a \n',
    'latex_token.Math.pattern': '$a \n',
    'block_token.ThematicBreak.pattern': '-_* a\n',
    'span_token.AutoLink.pattern': '<a:@.>\\',
    'block_token.Heading.pattern': '# a\n',
    'block_token.CodeFence.pattern': '`~ a\n',
    'block_token.List.pattern': '-1. a\n\t',
    'block_token.ListItem.pattern': '-1. a\n\t',
    'block_token.ListItem.continuation_pattern': ' \ta\n',
    'block_token.Paragraph.setext_pattern': '=- a\n',
    'block_token.Table.delimiter_row_pattern': '|-: a\n',
    'block_token.Table.column_align_pattern': '|-: a',
    'block_token.TableRow.split_pattern': '|\\a ',
    'block_token.TableRow.escaped_pipe_pattern': '|\\a',
    'span_token.LineBreak.pattern': ' \\a\n',
    'span_token.Strikethrough.pattern': '~\\a \n',
    'span_token.EscapeSequence.pattern': '\\*a \n',
    'span_token.HtmlSpan.pattern': '<a/> !-',
    'block_token.HtmlBlock.multiblock': '<pre> \n',
    'block_token.HtmlBlock.predefined': '</p> \n',
    'block_token.HtmlBlock.custom_tag': '<a/> \n',
    'contrib.github_wiki.GithubWiki.pattern': '[]| a',
    'markdown_renderer.MarkdownRenderer._whitespace': ' \na\t',
    'markdown_renderer.BlankLine.pattern': ' \na\t',
    'span_tokenizer._markdown_charref': '&#;a1x',
    'span_token.XWikiBlockMacroStart.pattern': '{}a\\/\n',
    'span_token.XWikiBlockMacroEnd.pattern': '{}a/ \n',
    'base_renderer.BaseRenderer._parse_name': 'AaB',
}

MODULES = ['block_token', 'span_token', 'core_tokens', 'span_tokenizer', 'markdown_renderer',
           'latex_token', 'base_renderer', 'contrib.github_wiki', 'contrib.toc_renderer']


def inventory():
    """name -> compiled pattern, from the live modules"""
    import importlib
    out = {}
    for mn in MODULES:
        try:
            mod = importlib.import_module('mistletoe.' + mn)
        except Exception:
            continue
        for k, v in vars(mod).items():
            if isinstance(v, re.Pattern):
                out['%s.%s' % (mn, k)] = v
            elif isinstance(v, type) and v.__module__ == mod.__name__:
                for kk, vv in vars(v).items():
                    if isinstance(vv, re.Pattern):
                        out['%s.%s.%s' % (mn, k, kk)] = vv
    return out


def _alphabet(name, pat):
    if name in ALPH:
        return ALPH[name]
    chars = []

    def walk(seq):
        for op, arg in seq:
            if op is P.LITERAL or op is P.NOT_LITERAL:
                chars.append(chr(arg))
            elif op is P.IN:
                for o, a in arg:
                    if o is P.LITERAL:
                        chars.append(chr(a))
                    elif o is P.RANGE:
                        chars.append(chr(a[0]))
            elif op in (P.MAX_REPEAT, P.MIN_REPEAT):
                walk(arg[2])
            elif op is P.SUBPATTERN:
                walk(arg[3])
            elif op is P.BRANCH:
                for b in arg[1]:
                    walk(b)
            elif op in (P.ASSERT, P.ASSERT_NOT):
                walk(arg[1])
    walk(P.parse(pat.pattern, pat.flags))
    seen = []
    for c in chars + ['a', ' ', '\n']:
        if c not in seen:
            seen.append(c)
    return ''.join(seen[:4] + [c for c in ['a', ' ', '\n'] if c not in seen[:4]])


def _real(pat, op, s, repl):
    if op == 'match':
        m = pat.match(s)
        return None if m is None else (m.span(), m.groups())
    if op == 'fullmatch':
        m = pat.fullmatch(s)
        return None if m is None else (m.span(), m.groups())
    if op == 'search':
        m = pat.search(s)
        return None if m is None else (m.span(), m.groups())
    if op == 'finditer':
        return [(m.span(), m.groups()) for m in pat.finditer(s)]
    if op == 'sub':
        return pat.sub(repl, s)
    if op == 'split':
        return pat.split(s)
    raise ValueError(op)


def _sym(pat, op, sym, repl, deep_realize):
    # runs with tracing ON: the call goes through CrossHair's registered patches
    if op in ('match', 'fullmatch', 'search'):
        m = getattr(pat, op)(sym)
        return None if m is None else deep_realize((m.span(), m.groups()))
    if op == 'finditer':
        return deep_realize([(m.span(), m.groups()) for m in pat.finditer(sym)])
    if op == 'sub':
        return deep_realize(pat.sub(repl, sym))
    if op == 'split':
        return deep_realize(pat.split(sym))
    raise ValueError(op)


def _norm(x):
    if isinstance(x, tuple):
        return tuple(_norm(e) for e in x)
    if isinstance(x, list):
        return [_norm(e) for e in x]
    if isinstance(x, bool) or x is None:
        return x
    if isinstance(x, int):
        return int(x)
    if isinstance(x, str):
        return str(x)
    return x


def gate_one(job):
    """job = (name, pattern_text, flags, ops, alphabet, budget) -> result dict"""
    name, ptxt, flags, ops, alph, budget = job
    from crosshair.core_and_libs import standalone_statespace, NoTracing
    from crosshair.core import deep_realize
    from crosshair.libimpl.builtinslib import LazyIntSymbolicStr
    from . import install
    install(masksets=False)
    pat = re.compile(ptxt, flags)
    maxlen = 0
    total = 1
    while maxlen < 6 and total + len(alph) ** (maxlen + 1) <= budget:
        maxlen += 1
        total += len(alph) ** maxlen
    res = {'pattern': ptxt, 'flags': flags, 'alphabet': alph, 'maxlen': maxlen, 'ops': {}}
    t0 = time.time()
    for op in ops:
        n = bad = 0
        examples = []
        repl = SUB_REPL.get(name, r'')
        with standalone_statespace:
            for L in range(0, maxlen + 1):
                for tup in itertools.product(alph, repeat=L):
                    s = ''.join(tup)
                    with NoTracing():
                        sym = LazyIntSymbolicStr(list(map(ord, s)))
                        want = _norm(_real(pat, op, s, repl))
                    try:
                        got = _sym(pat, op, sym, repl, deep_realize)
                    except Exception as e:  # noqa
                        got = 'EXC %s: %s' % (type(e).__name__, e)
                    with NoTracing():
                        got = _norm(got)
                        n += 1
                        if got != want:
                            bad += 1
                            if len(examples) < 3:
                                examples.append([s, repr(want), repr(got)])
        res['ops'][op] = {'cases': n, 'disagreements': bad, 'examples': examples}
    res['wall_s'] = round(time.time() - t0, 2)
    return name, res


STR_ALPH = ['a', 'A', ' ', '\t', '\n', '\r', '\x0b', '\x1c', '\x85', '\xa0', '\u2028', 'ß', '1']


def _str_methods():
    return {
        'strip': lambda s: s.strip(), 'lstrip': lambda s: s.lstrip(), 'rstrip': lambda s: s.rstrip(),
        'lstrip_sp': lambda s: s.lstrip(' '), 'strip_nl': lambda s: s.strip('\n'),
        'rstrip_nl': lambda s: s.rstrip('\n'),
        'split': lambda s: s.split(), 'split_max1': lambda s: s.split(maxsplit=1),
        'split_gt': lambda s: (s + '>').split('>', 1), 'split_nl': lambda s: s.split('\n'),
        'splitlines_keep': lambda s: s.splitlines(keepends=True),
        'splitlines': lambda s: s.splitlines(),
        'startswith_sp4': lambda s: s.startswith('    '), 'endswith_nl': lambda s: s.endswith('\n'),
        'startswith_tuple': lambda s: s.startswith(('  ', '\\')),
        'replace_tab': lambda s: s.replace('\t', '    ', 1), 'replace_amp': lambda s: s.replace('a', '&amp;'),
        'expandtabs4': lambda s: s.expandtabs(4),
        'find_nl': lambda s: s.find('\n'), 'count_nl': lambda s: s.count('\n'),
        'join': lambda s: ' '.join(s.split()),
        'isspace': lambda s: s.isspace(), 'isdigit': lambda s: s.isdigit(), 'isupper': lambda s: s.isupper(),
        'casefold': lambda s: s.casefold(), 'lower': lambda s: s.lower(),
        'slice': lambda s: (s[1:], s[:-1], s[1:-1], s[:2]), 'mul': lambda s: s * 2,
        'in': lambda s: ('a' in s, '\n' in s), 'eq_nl': lambda s: s == '\n',
        'format': lambda s: '{}\n'.format(s), 'len': lambda s: len(s),
        'concat': lambda s: s + 'x' + s, 'iter': lambda s: [c for c in s],
        'enumerate': lambda s: [(i, c) for i, c in enumerate(s[1:], start=1)],
        'ord': lambda s: [ord(c) for c in s], 'set': lambda s: set(s) == {'a'},
    }


def gate_str(job):
    maxlen, names = job
    from crosshair.core_and_libs import standalone_statespace, NoTracing
    from crosshair.core import deep_realize
    from crosshair.libimpl.builtinslib import LazyIntSymbolicStr
    from . import install
    install(masksets=False)
    out = {}
    strings = [''.join(t) for L in range(maxlen + 1) for t in itertools.product(STR_ALPH, repeat=L)]
    for mname, fn in _str_methods().items():
        if mname not in names:
            continue
        n = bad = 0
        examples = []
        with standalone_statespace:
            for s in strings:
                with NoTracing():
                    sym = LazyIntSymbolicStr(list(map(ord, s)))
                    try:
                        want = fn(s)
                    except Exception as e:
                        want = 'EXC ' + type(e).__name__
                try:
                    got = deep_realize(fn(sym))
                except Exception as e:
                    got = 'EXC ' + type(e).__name__
                with NoTracing():
                    n += 1
                    if _norm(got) != _norm(want):
                        bad += 1
                        if len(examples) < 3:
                            examples.append([s, repr(want), repr(got)])
        out[mname] = {'cases': n, 'disagreements': bad, 'examples': examples}
    return out


def gate_maskset():
    import sys as _s
    from mistletoe import core_tokens as ct
    from .maskset import MaskSet
    out = {}
    for name in ('punctuation', 'unicode_whitespace', 'whitespace'):
        live = getattr(ct, name)
        chars = live._chars if isinstance(live, MaskSet) else frozenset(live)
        ms = live if isinstance(live, MaskSet) else MaskSet(live)
        covered = set()
        for lo, hi in ms._mask.all_bounds():
            covered.update(range(lo, hi))
        bad = len(covered ^ {ord(c) for c in chars})
        out[name] = {'cases': _s.maxunicode + 1, 'disagreements': bad, 'size': len(chars)}
    return out


def run(budget=1500, jobs=8, only=None, extra=(), with_str=True, with_mask=True, str_maxlen=2):
    import multiprocessing as mp
    inv = inventory()
    work = []
    for name, pat in sorted(inv.items()):
        if only and not any(o in name for o in only):
            continue
        work.append((name, pat.pattern, int(pat.flags), OPS.get(name, ['match']), _alphabet(name, pat), budget))
    for i, spec in enumerate(extra):
        ptxt, flags, ops, alph = spec
        work.append(('extra.%d' % i, ptxt, int(flags), list(ops), alph, budget))
    t0 = time.time()
    ctx = mp.get_context('spawn')
    names = sorted(_str_methods())
    chunks = [names[i::jobs] for i in range(jobs)] if with_str else []
    with ctx.Pool(min(jobs, max(1, len(work)))) as pool:
        str_async = pool.map_async(gate_str, [(str_maxlen, c) for c in chunks if c], chunksize=1)
        results = dict(pool.map(gate_one, work, chunksize=1))
        str_res = {}
        for d in str_async.get():
            str_res.update(d)
    deny = sorted({(r['pattern'], r['flags']) for r in results.values()
                   if any(o['disagreements'] for o in r['ops'].values())})
    out = {'patterns': results, 'deny': [list(d) for d in deny],
           'cases': sum(o['cases'] for r in results.values() for o in r['ops'].values()),
           'wall_s': round(time.time() - t0, 1)}
    if with_mask:
        out['maskset'] = gate_maskset()
        from .stubs import selftest_quote
        out['quote_stub'] = selftest_quote()
        out['cases'] += out['quote_stub']['cases']
    if with_str:
        out['str_methods'] = str_res
        out['cases'] += sum(v['cases'] for v in str_res.values())
        out['deny_str'] = sorted(k for k, v in str_res.items() if v['disagreements'])
    return out


if __name__ == '__main__':
    import argparse
    ap = argparse.ArgumentParser()
    ap.add_argument('--budget', type=int, default=1500)
    ap.add_argument('--jobs', type=int, default=8)
    ap.add_argument('--only', nargs='*')
    a = ap.parse_args()
    r = run(a.budget, a.jobs, a.only)
    for k, v in r['patterns'].items():
        for op, o in v['ops'].items():
            print('%-55s %-9s len<=%d cases %6d bad %4d %s' % (k, op, v['maxlen'], o['cases'], o['disagreements'], o['examples'][:2]))
    print('deny', r['deny'])
    print('maskset', r.get('maskset'))
    for k, v in (r.get('str_methods') or {}).items():
        if v['disagreements']:
            print('STR', k, v)
    print('cases', r['cases'], 'wall', r['wall_s'])
