"""E2: regular-language queries on compiled patterns.

sre parse tree -> z3 regular expression (continuation-passing translation so that `$`
and look-aheads can constrain what follows).  Universe: strings over code points
0..0x2FFFF (z3's character sort); planes 3-16 hold no whitespace, digit, letter class
used by the patterns and are outside the claim.

`$` (no MULTILINE) = "the rest of the subject is '' or '\\n'".  Back-references to groups
with a finite language are expanded (one branch per word).  Look-behinds are accepted
only at the very start of a match-anchored pattern (where they are vacuous for `match`).
Lazy/greedy does not matter: every query asks about EXISTENCE of a match.
"""
import re
import re._parser as P
import sys
import time
import unicodedata

import z3

MAXCP = 0x2FFFF


def _ranges_of(pred):
    out = []
    start = None
    for cp in range(MAXCP + 2):
        ok = cp <= MAXCP and pred(chr(cp))
        if ok and start is None:
            start = cp
        elif not ok and start is not None:
            out.append((start, cp - 1))
            start = None
    return out


_CAT_CACHE = {}


def category_ranges(cat):
    if cat in _CAT_CACHE:
        return _CAT_CACHE[cat]
    sp = re.compile(r'\s')
    dg = re.compile(r'\d')
    wd = re.compile(r'\w')
    if cat is P.CATEGORY_SPACE:
        r = _ranges_of(lambda c: sp.match(c) is not None)
    elif cat is P.CATEGORY_DIGIT:
        r = _ranges_of(lambda c: dg.match(c) is not None)
    elif cat is P.CATEGORY_WORD:
        r = _ranges_of(lambda c: wd.match(c) is not None)
    else:
        raise NotImplementedError(cat)
    _CAT_CACHE[cat] = r
    return r


def _complement(ranges):
    out = []
    prev = 0
    for lo, hi in sorted(ranges):
        if lo > prev:
            out.append((prev, lo - 1))
        prev = max(prev, hi + 1)
    if prev <= MAXCP:
        out.append((prev, MAXCP))
    return out


def _union(ranges):
    out = []
    for lo, hi in sorted(ranges):
        if out and lo <= out[-1][1] + 1:
            out[-1] = (out[-1][0], max(out[-1][1], hi))
        else:
            out.append((lo, hi))
    return out


def class_ranges(items, flags=0):
    negate = False
    parts = []
    for op, a in items:
        if op is P.NEGATE:
            negate = True
        elif op is P.LITERAL:
            parts.append((a, a))
        elif op is P.RANGE:
            parts.append((a[0], a[1]))
        elif op is P.CATEGORY:
            neg = {P.CATEGORY_NOT_SPACE: P.CATEGORY_SPACE, P.CATEGORY_NOT_DIGIT: P.CATEGORY_DIGIT,
                   P.CATEGORY_NOT_WORD: P.CATEGORY_WORD}
            if a in neg:
                parts.extend(_complement(category_ranges(neg[a])))
            else:
                parts.extend(category_ranges(a))
        else:
            raise NotImplementedError(op)
    parts = _union([(lo, min(hi, MAXCP)) for lo, hi in parts if lo <= MAXCP])
    return _complement(parts) if negate else parts


def _z3char(cp):
    return z3.Unit(z3.CharFromBv(z3.BitVecVal(cp, 18)))


def ranges_re(ranges):
    rs = []
    for lo, hi in ranges:
        if lo == hi:
            rs.append(z3.Re(_z3char(lo)))
        else:
            rs.append(z3.Range(_z3char(lo), _z3char(hi)))
    if not rs:
        return z3.Empty(z3.ReSort(z3.StringSort()))
    return rs[0] if len(rs) == 1 else z3.Union(*rs)


EPS = z3.Re(z3.StringVal(''))
ANYCH = ranges_re([(0, MAXCP)])
ALL = z3.Star(ANYCH)


def lit(s):
    return z3.Re(z3.StringVal(s)) if all(ord(c) < 128 and c.isprintable() for c in s) else \
        z3.Concat(*[z3.Re(_z3char(ord(c))) for c in s]) if len(s) > 1 else z3.Re(_z3char(ord(s)))


def cat(a, b):
    if a is EPS:
        return b
    if b is EPS:
        return a
    return z3.Concat(a, b)


class Untranslatable(Exception):
    pass


def _finite_words(body, maxrun):
    body = list(body)
    if len(body) != 1:
        return None
    op, arg = body[0]
    if op is P.LITERAL:
        return [chr(arg)]
    if op is P.IN:
        out = []
        for o, a in arg:
            if o is P.LITERAL:
                out.append(chr(a))
            else:
                return None
        return out
    if op in (P.MAX_REPEAT, P.MIN_REPEAT):
        lo, hi, sub = arg
        sub = list(sub)
        if len(sub) == 1 and sub[0][0] is P.LITERAL:
            c = chr(sub[0][1])
            hi = min(hi, maxrun) if hi is not P.MAXREPEAT else maxrun
            return [c * k for k in range(max(lo, 1), hi + 1)] + ([''] if lo == 0 else [])
        if len(sub) == 1 and sub[0][0] is P.IN:
            cs = [chr(a) for o, a in sub[0][1] if o is P.LITERAL]
            if len(cs) != len(sub[0][1]):
                return None
            return None
    if op is P.BRANCH:
        out = []
        for b in arg[1]:
            w = _finite_words(b, maxrun)
            if w is None:
                return None
            out.extend(w)
        return out
    return None


class Translator:
    """continuation-passing translation; tr(seq, k) = language of seq followed by k"""

    def __init__(self, flags=0, maxrun=8):
        self.flags = flags
        self.maxrun = maxrun
        self.bound_groups = {}
        self.notes = []

    def atom(self, op, a):
        if op is P.LITERAL:
            return z3.Re(_z3char(a))
        if op is P.NOT_LITERAL:
            return ranges_re(_complement([(a, a)]))
        if op is P.ANY:
            return ANYCH if self.flags & re.DOTALL else ranges_re(_complement([(10, 10)]))
        if op is P.IN:
            return ranges_re(class_ranges(a, self.flags))
        raise Untranslatable(op)

    def tr(self, seq, k):
        seq = list(seq)
        if not seq:
            return k
        (op, a), rest = seq[0], seq[1:]
        if op is P.SUBPATTERN:
            g, _, _, body = a
            return self.tr(list(body) + rest, k)
        if op is P.BRANCH:
            return z3.Union(*[self.tr(list(b) + rest, k) for b in a[1]])
        if op is P.AT:
            if a is P.AT_END and not (self.flags & re.MULTILINE):
                return z3.Intersect(self.tr(rest, k), z3.Option(z3.Re(_z3char(10))))
            if a is P.AT_END_STRING:
                return z3.Intersect(self.tr(rest, k), EPS)
            raise Untranslatable(('AT', a))
        if op is P.ASSERT_NOT and a[0] == 1:
            # negative look-ahead: the rest of the subject must not start with a match of X
            x = self.tr(list(a[1]), ALL)
            return z3.Intersect(self.tr(rest, k), z3.Complement(x))
        if op is P.ASSERT and a[0] == 1:
            x = self.tr(list(a[1]), ALL)
            return z3.Intersect(self.tr(rest, k), x)
        if op in (P.ASSERT, P.ASSERT_NOT):
            raise Untranslatable('look-behind')
        if op is P.GROUPREF:
            raise Untranslatable('unexpanded back-reference')
        if op in (P.MAX_REPEAT, P.MIN_REPEAT):
            lo, hi, body = a
            if self._context_free(body):
                r = self.tr(list(body), EPS)
                if hi is P.MAXREPEAT:
                    rep = z3.Star(r) if lo == 0 else cat(z3.Loop(r, lo, lo), z3.Star(r)) if lo > 1 else z3.Plus(r)
                else:
                    rep = z3.Loop(r, lo, hi)
                return cat(rep, self.tr(rest, k))
            # body contains `$` / look-ahead: unroll (bounded)
            if hi is P.MAXREPEAT:
                raise Untranslatable('unbounded repeat of a context-sensitive body')
            alts = []
            for n in range(lo, hi + 1):
                alts.append(self.tr(list(body) * n + rest, k))
            return z3.Union(*alts) if len(alts) > 1 else alts[0]
        return cat(self.atom(op, a), self.tr(rest, k))

    def _context_free(self, seq):
        for op, a in seq:
            if op is P.AT or op in (P.ASSERT, P.ASSERT_NOT) or op is P.GROUPREF:
                return False
            if op in (P.MAX_REPEAT, P.MIN_REPEAT) and not self._context_free(a[2]):
                return False
            if op is P.SUBPATTERN and not self._context_free(a[3]):
                return False
            if op is P.BRANCH and not all(self._context_free(b) for b in a[1]):
                return False
        return True


def _refs(seq, acc):
    for op, arg in seq:
        if op is P.GROUPREF:
            acc.add(arg)
        elif op in (P.MAX_REPEAT, P.MIN_REPEAT):
            _refs(arg[2], acc)
        elif op is P.SUBPATTERN:
            _refs(arg[3], acc)
        elif op is P.BRANCH:
            for b in arg[1]:
                _refs(b, acc)
        elif op in (P.ASSERT, P.ASSERT_NOT):
            _refs(arg[1], acc)
    return acc


def expand_backrefs(seq, maxrun=8):
    from vfy.plug import rxplug
    seq = list(seq)
    for g in sorted(_refs(seq, set())):
        body = rxplug._find_group(seq, g)
        words = _finite_words(body, maxrun) if body is not None else None
        if not words:
            raise Untranslatable('back-reference to an infinite group')
        seq = [(P.BRANCH, (None, [rxplug._inst(seq, g, w) for w in words]))]
    return seq


def match_language(pattern, flags=0, tail=ALL, maxrun=8):
    """{ s : re.compile(pattern).match(s) succeeds }  (tail=ALL), or fullmatch (tail=EPS)"""
    if isinstance(pattern, re.Pattern):
        flags = pattern.flags
        pattern = pattern.pattern
    tree = P.parse(pattern, flags)
    flags = tree.state.flags          # includes inline flags such as (?s)
    seq = expand_backrefs(list(tree), maxrun)
    return Translator(flags, maxrun).tr(seq, tail)


LINE = cat(z3.Star(ranges_re(_complement([(10, 10)]))), z3.Re(_z3char(10)))      # [^\n]*\n
XWS_RANGES = [(0x0b, 0x0c), (0x0d, 0x0d), (0x1c, 0x1f), (0x85, 0x85), (0xa0, 0xa0), (0x1680, 0x1680),
              (0x2000, 0x200a), (0x2028, 0x2029), (0x202f, 0x202f), (0x205f, 0x205f), (0x3000, 0x3000)]
MD_LINE = cat(z3.Star(ranges_re(_complement([(10, 10)] + XWS_RANGES))), z3.Re(_z3char(10)))


def solve(constraints, var, timeout_ms=60000):
    s = z3.Solver()
    s.set('timeout', timeout_ms)
    s.add(*constraints)
    t = time.time()
    r = s.check()
    dt = time.time() - t
    if r == z3.sat:
        w = s.model().eval(var, model_completion=True)
        return 'sat', _to_py(w), dt
    return str(r), None, dt


def _to_py(zs):
    txt = zs.as_string()
    # z3 escapes non-printables as \u{XXXX}
    return re.sub(r'\\u\{([0-9a-fA-F]+)\}', lambda m: chr(int(m.group(1), 16)), txt)


def included(a, b, universe=None, timeout_ms=60000):
    """L(a) ∩ universe ⊆ L(b)?  -> ('unsat', None, dt) if yes, ('sat', witness, dt) if not"""
    s = z3.String('s')
    cs = [z3.InRe(s, a), z3.Not(z3.InRe(s, b))]
    if universe is not None:
        cs.append(z3.InRe(s, universe))
    return solve(cs, s, timeout_ms)


def nonempty(a, universe=None, timeout_ms=60000):
    s = z3.String('s')
    cs = [z3.InRe(s, a)]
    if universe is not None:
        cs.append(z3.InRe(s, universe))
    return solve(cs, s, timeout_ms)


def member(a, text):
    s = z3.Solver()
    s.set('timeout', 20000)
    s.add(z3.InRe(z3.StringVal(_z3lit(text)), a))
    return str(s.check()) == 'sat'


def _z3lit(text):
    return ''.join(c if 32 <= ord(c) < 127 and c != '\\' else '\\u{%x}' % ord(c) for c in text)


class Session:
    """Collects the queries of one E2 lemma."""

    def __init__(self):
        self.detail = []
        self.queries = 0
        self.solver_s = 0.0
        self.verdict = 'CONFIRMED'
        self.witness = None
        self.message = ''

    def expect_unsat(self, label, status, witness, dt, info_only=False):
        self.queries += 1
        self.solver_s += dt
        self.detail.append({'query': label, 'result': status, 'witness': witness, 'solver_s': round(dt, 3),
                            'informational': info_only})
        if info_only:
            return
        if status == 'sat':
            if self.verdict != 'REFUTED':
                self.verdict = 'REFUTED'
                self.witness = [label, witness]
                self.message = '%s: witness %r' % (label, witness)
        elif status != 'unsat' and self.verdict == 'CONFIRMED':
            self.verdict = 'UNKNOWN'
            self.message = '%s: solver said %s' % (label, status)

    def expect_sat(self, label, status, witness, dt):
        """non-vacuity: the language must not be empty"""
        self.queries += 1
        self.solver_s += dt
        self.detail.append({'query': label + ' (non-vacuity)', 'result': status, 'witness': witness, 'solver_s': round(dt, 3)})
        if status != 'sat' and self.verdict == 'CONFIRMED':
            self.verdict = 'UNKNOWN'
            self.message = '%s: language unexpectedly empty/unknown (%s)' % (label, status)

    def validate(self, label, pattern, lang, samples, fullmatch=False):
        """translator validation: the z3 language and the real `re` agree on concrete samples"""
        bad = []
        for s in samples:
            real = (pattern.fullmatch(s) if fullmatch else pattern.match(s)) is not None
            if any(ord(c) > MAXCP for c in s):
                continue
            got = member(lang, s)
            self.queries += 1
            if real != got:
                bad.append(s)
        self.detail.append({'query': 'translator validation ' + label, 'samples': len(samples), 'disagreements': bad[:5]})
        if bad:
            self.verdict = 'ERROR'
            self.message = 'translator disagrees with re on %r for %s' % (bad[:3], label)

    def result(self):
        r = {'verdict': self.verdict, 'queries': self.queries, 'solver_s': self.solver_s, 'detail': self.detail,
             'message': self.message}
        if self.verdict == 'REFUTED':
            r['args'] = self.witness
        return r


def sample_lines(limit=400, seed=0):
    """lines from the vendored spec corpus and one-character mutations of them"""
    import json
    import os
    import random
    d = json.load(open(os.path.join(os.path.dirname(__file__), 'ref', 'commonmark-0.30.json')))
    lines = []
    for e in d:
        for ln in e['markdown'].splitlines(keepends=True):
            if not ln.endswith('\n'):
                ln += '\n'
            lines.append(ln)
    lines = sorted(set(lines))
    rnd = random.Random(seed)
    rnd.shuffle(lines)
    lines = lines[:limit]
    muts = []
    alphabet = ' #-*_+>=`~.)1a\t|:\\'
    for ln in lines[:limit // 2]:
        i = rnd.randrange(len(ln))
        c = rnd.choice(alphabet)
        muts.append(ln[:i] + c + ln[i:])
        if len(ln) > 1:
            muts.append(ln[:i] + ln[i + 1:] if ln[i] != '\n' else ln)
    return lines + muts
