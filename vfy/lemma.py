"""Lemma registry.  A lemma is a plain Python function over the LIVE mistletoe modules
with a PEP-316 contract:

    pre:   the bound and the property's side condition (may use P('name') = job parameter)
    post:  `_`  -- the function returns True iff the property held on this input
    raises: (optional) exceptions the property admits

It is analysed symbolically by CrossHair (vfy/worker.py) and can be executed concretely
by the plain interpreter (vfy/replay.py) -- the same code, so a counter-example is
replayed against exactly what was checked.  This module must not import crosshair.
"""
import functools
import inspect
import os
import re

# the tree under test: /repo, unless VERIF_REPO names a scratch copy (used only to try seeded changes
# in their own worktree while developing; the registered commands always run against /repo)
REPO = os.environ.get('VERIF_REPO', '/repo').rstrip('/')

PARAMS = {}
TWIN = False          # reachability twin (worker.py replaces the post-condition by False)
CONCRETE = False      # set by replay.py: running without CrossHair
REGISTRY = {}
GIVE_UPS = []         # paths on which the harness could not observe / model something (see give_up, Duck)


def P(name, default=None):
    if name in PARAMS:
        return PARAMS[name]
    if default is None:
        raise KeyError('lemma parameter %r not set' % name)
    return default


class Meta:
    def __init__(self, fn, name, prop, quick, thorough, timeout, per_path, covers, stubs, replay,
                 doc, gate, plug, twin_timeout, note):
        self.fn = fn
        self.name = name
        self.prop = prop
        self.quick = quick
        self.thorough = thorough
        self.timeout = timeout
        self.per_path = per_path
        self.covers = covers
        self.stubs = stubs
        self.replay = replay
        self.doc = doc
        self.gate = gate
        self.plug = plug
        self.twin_timeout = twin_timeout
        self.note = note
        self.canary = []
        self.kind = 'chx'


def lemma(name, prop, quick=({},), thorough=None, timeout=120, per_path=30, covers=(), stubs=(),
          replay=None, gate=None, plug=True, twin_timeout=60, note='', canary=()):
    """quick / thorough: lists of parameter dicts, one job (partition) each.
    A parameter dict may carry 'timeout' to override the lemma's."""
    def deco(fn):
        # NOTE: the function is registered as it is, NOT wrapped: CrossHair short-circuits calls
        # to functions that carry a contract (it assumes their post-condition instead of running
        # them), so a wrapper calling a contracted inner function would make every lemma
        # "Confirmed".  (worker.py additionally disables short-circuiting altogether.)
        doc = inspect.getdoc(fn) or ''
        meta = Meta(fn, name, prop, list(quick), list(thorough if thorough is not None else quick),
                    timeout, per_path, list(covers), list(stubs), replay, doc,
                    gate, plug, twin_timeout, note)
        # canaries: parameter sets under which the lemma is KNOWN to be false (an exclusion switched
        # off, a deliberately wrong oracle).  They must come back REFUTED -- a sensitivity self-test
        # of engine + harness, run with every check.
        meta.canary = list(canary)
        fn.__lemma__ = meta
        REGISTRY[(fn.__module__, fn.__name__)] = meta
        return fn
    return deco


_LINE = re.compile(r'^\s*(pre|post|raises)\s*:\s*(.*?)\s*$')


def contract(fn):
    """(pre-expressions, post-expressions, admitted exception names) from the docstring"""
    pre, post, raises = [], [], []
    doc = fn.__lemma__.doc if hasattr(fn, '__lemma__') else (inspect.getdoc(fn) or '')
    for line in doc.splitlines():
        m = _LINE.match(line)
        if not m:
            continue
        kind, body = m.groups()
        if kind == 'pre':
            pre.append(body)
        elif kind == 'post':
            post.append(body)
        else:
            raises.extend(x.strip() for x in body.split(',') if x.strip())
    return pre, post, raises


def run_concrete(fn, args):
    """Execute a lemma on concrete arguments without CrossHair.
    Returns (status, detail): status in {'PRE_FALSE', 'HOLDS', 'FAILS'}"""
    inner = inspect.unwrap(fn)
    sig = inspect.signature(inner)
    bound = sig.bind(*args)
    env = dict(inner.__globals__)
    env.update(bound.arguments)
    pre, post, raises = contract(fn)
    for p in pre:
        try:
            ok = eval(p, env)
        except Exception as e:
            return 'PRE_FALSE', 'precondition %r raised %r' % (p, e)
        if not ok:
            return 'PRE_FALSE', 'precondition %r is false' % p
    try:
        ret = inner(*args)
    except Exception as e:  # noqa
        if type(e).__name__ in raises:
            return 'HOLDS', 'admitted exception %s' % type(e).__name__
        import traceback
        frames = traceback.extract_tb(e.__traceback__)
        if isinstance(e, HarnessLimit):
            return 'HARNESS', 'stand-in limit: %s' % e
        if not any(f.filename.startswith(REPO + '/') for f in frames):
            # the exception never passed through the code under test: a bug of the harness itself
            return 'HARNESS', 'lemma code raised %s: %s\n%s' % (type(e).__name__, e, traceback.format_exc(limit=6))
        return 'FAILS', 'raised %s: %s\n%s' % (type(e).__name__, e, traceback.format_exc(limit=6))
    if ret:
        return 'HOLDS', 'returned %r' % (ret,)
    return 'FAILS', 'post-condition false (returned %r)' % (ret,)


def rxlemma(name, prop, quick=({},), thorough=None, timeout=300, covers=(), replay=None, note=''):
    """An E2 obligation: a function that builds regular-language queries from the LIVE compiled
    patterns, asks z3, and returns {'verdict', 'queries', 'solver_s', 'detail', ['args']}."""
    def deco(fn):
        meta = Meta(fn, name, prop, list(quick), list(thorough if thorough is not None else quick), timeout, 0,
                    list(covers), [], replay, inspect.getdoc(fn) or '', None, False, 0, note)
        meta.kind = 'rx'
        fn.__lemma__ = meta
        REGISTRY[(fn.__module__, fn.__name__)] = meta
        return fn
    return deco


class HarnessLimit(Exception):
    """the code under test used a duck-typed stand-in in a way the stand-in does not model"""


class Duck:
    """mixin for duck-typed stand-ins (SpanStr, LenStr, RunStr, ...): an attribute the stand-in does not
    model makes the path INCONCLUSIVE (CrossHair: IgnoreAttempt; concrete replay: HARNESS) instead of
    being reported as a violation of the property -- a refactoring that merely calls another str method
    on a value must not raise an alarm"""
    def __getattr__(self, name):
        if name.startswith('_') or name in object.__getattribute__(self, '__dict__').get('_absent_', ()):
            # private / dunder lookups (getattr with a default, protocol probes) behave normally; so do attributes
            # the real constructor deliberately leaves unset (declared by the harness: Table.header)
            raise AttributeError(name)
        if not CONCRETE:
            try:
                from crosshair.util import IgnoreAttempt
            except ImportError:
                IgnoreAttempt = None
            if IgnoreAttempt is not None:
                GIVE_UPS.append('duck %s does not model .%s' % (type(self).__name__, name))
                raise IgnoreAttempt('duck %s does not model .%s' % (type(self).__name__, name))
        raise HarnessLimit('duck %s does not model .%s' % (type(self).__name__, name))


class untraced:
    """run a block at native speed, outside CrossHair's tracer.  ONLY for code whose inputs are fully
    concrete on the current path (e.g. re-rendering the fixed probe documents after a fault): nothing
    symbolic may be touched inside."""
    def __enter__(self):
        self.cm = None
        if not CONCRETE:
            try:
                from crosshair.tracers import NoTracing, is_tracing
                if is_tracing():
                    self.cm = NoTracing()
                    self.cm.__enter__()
            except ImportError:
                pass
        return self

    def __exit__(self, *a):
        if self.cm is not None:
            self.cm.__exit__(*a)
        return False


GIVE_UP_LIMIT = 100
ON_GIVE_UP_LIMIT = None


def give_up(msg):
    """the harness cannot observe what it needs on this path (e.g. a recorder was never called because the
    code was reorganised): make the path inconclusive instead of reporting a violation"""
    if not CONCRETE:
        try:
            from crosshair.util import IgnoreAttempt
            GIVE_UPS.append(msg)
            if ON_GIVE_UP_LIMIT is not None and len(GIVE_UPS) >= GIVE_UP_LIMIT:
                ON_GIVE_UP_LIMIT()          # CrossHair would re-try ignored paths until the time budget is gone
            raise IgnoreAttempt(msg)
        except ImportError:
            pass
    raise HarnessLimit(msg)
