"""C18 -- the HTML-based contrib renderers conservatively extend HtmlRenderer.

X0 (structural side condition, recomputed from the live classes): every render_map entry of
the four renderers resolves to HtmlRenderer's function except the documented overrides.
X1: the overrides agree with the base where the extension is not used.  X2 (E2): the
extension tokens can only match text that contains their trigger.  X3: whole pipeline.
"""
from vfy.lemma import lemma, rxlemma, P
from vfy.lemmas.common import S, cp_ok, cp_md, all_ok, all_in, ALPH14, by, fixed, ks
from vfy.plug.stubs import install_quote
from mistletoe.html_renderer import HtmlRenderer

ASSUMPTIONS = ['C18: Pygments (third party, regex heavy) is never executed symbolically: without a code block render_block_code is not reached (X0 + the pre-condition of X3)']
OUTSIDE = ['documents longer than the X3 sweep except through X0+X1+X2', 'PygmentsRenderer.render_block_code itself']

DOCUMENTED_OVERRIDES = {
    'TocRenderer': {'Heading', 'SetextHeading'},
    'GithubWikiRenderer': {'GithubWiki'},
    'MathJaxRenderer': {'Math', 'Document'},
    'PygmentsRenderer': {'CodeFence', 'BlockCode'},
}


def _classes():
    from mistletoe.contrib.toc_renderer import TocRenderer
    from mistletoe.contrib.github_wiki import GithubWikiRenderer
    from mistletoe.contrib.mathjax import MathJaxRenderer
    out = {'TocRenderer': TocRenderer, 'GithubWikiRenderer': GithubWikiRenderer, 'MathJaxRenderer': MathJaxRenderer}
    try:
        from mistletoe.contrib.pygments_renderer import PygmentsRenderer
        out['PygmentsRenderer'] = PygmentsRenderer
    except Exception:
        pass
    return out


def x0_override_inventory():
    """every key of render_map resolves to HtmlRenderer's function, except the documented overrides;
    helpers used by those functions (render_inner, render, escape_*, render_to_plain) are inherited too"""
    from mistletoe import block_token, span_token
    bad = []
    for name, cls in _classes().items():
        with cls() as r, HtmlRenderer() as base:
            pass
        for key, fn in r.render_map.items():
            f = getattr(fn, '__func__', fn)
            if key in base.render_map:
                g = getattr(base.render_map[key], '__func__', base.render_map[key])
                same = f is g
            else:
                same = False
            if not same and key not in DOCUMENTED_OVERRIDES[name]:
                bad.append('%s.render_map[%s] -> %s' % (name, key, getattr(f, '__qualname__', f)))
            if same and key in DOCUMENTED_OVERRIDES[name] and key not in ('SetextHeading', 'BlockCode'):
                pass
        for helper in ('render', 'render_inner', 'escape_html_text', 'escape_url', 'render_to_plain', '__exit__', '__enter__'):
            if getattr(cls, helper) is not getattr(HtmlRenderer, helper):
                bad.append('%s.%s is overridden' % (name, helper))
        if cls.__mro__.index(HtmlRenderer) != 1 and name != 'MathJaxRenderer':
            bad.append('%s: HtmlRenderer is not the first base' % name)
        block_token.reset_tokens()
        span_token.reset_tokens()
    return (not bad), bad or 'all render_map entries resolve to HtmlRenderer except %s' % DOCUMENTED_OVERRIDES


SIDE_CONDITIONS = [x0_override_inventory]


class H:
    def __init__(self, level, children):
        self.level = level
        self.children = children


@lemma('X1.toc-heading', 'C18', quick=[{'k': 0}] + by('level', [1, 2, 3, 4, 5, 6], [{'k': 1}]), thorough=[{'k': 0}] + by('level', [1, 2, 3, 4, 5, 6], [{'k': 1}, {'k': 2, 'timeout': 3000}]), timeout=300,
       covers=['contrib/toc_renderer.py:TocRenderer.render_heading', 'html_renderer.py:HtmlRenderer.render_heading'],
       note='TocRenderer.render_heading returns exactly what HtmlRenderer.render_heading returns; level in 1..6 solver-enumerated, inner text symbolic over Σ, options symbolic and forwarded')
def x1_toc_heading(level: int, c1: int, c2: int, dq: bool, sq: bool, depth: int, omit: bool) -> bool:
    """
    pre: fixed(level, 'level') and 1 <= level <= 6 and all_ok(cp_ok, P('k'), c1, c2)
    post: _
    """
    from mistletoe.contrib.toc_renderer import TocRenderer
    from mistletoe.span_token import RawText
    from mistletoe import block_token, span_token
    from vfy.lemmas.c19 import concretise
    level = concretise(level, 1, 6)
    tok = H(level, [RawText(S(P('k'), c1, c2))])
    try:
        with TocRenderer(depth=depth, omit_title=omit, html_escape_double_quotes=dq, html_escape_single_quotes=sq) as t, \
                HtmlRenderer(html_escape_double_quotes=dq, html_escape_single_quotes=sq) as h:
            same_opts = (t.html_escape_double_quotes == h.html_escape_double_quotes
                         and t.html_escape_single_quotes == h.html_escape_single_quotes)
            return same_opts and t.render_heading(tok) == h.render_heading(tok)
    finally:
        block_token.reset_tokens()
        span_token.reset_tokens()


@lemma('X1.options', 'C18', timeout=200,
       covers=['contrib/toc_renderer.py:TocRenderer.__init__', 'contrib/github_wiki.py:GithubWikiRenderer.__init__',
               'contrib/mathjax.py:MathJaxRenderer.__init__', 'contrib/mathjax.py:MathJaxRenderer.render_document'],
       note='the three HtmlRenderer options are forwarded by every contrib constructor (Toc, GithubWiki, MathJax, Pygments); MathJax.render_document = base + script line')
def x1_options(dq: bool, sq: bool, html: bool, which: int, c1: int) -> bool:
    """
    pre: 0 <= which <= 3 and cp_ok(c1)
    post: _
    """
    from mistletoe import block_token, span_token
    from mistletoe.span_token import RawText
    names = ['TocRenderer', 'GithubWikiRenderer', 'MathJaxRenderer', 'PygmentsRenderer']
    if names[which] not in _classes():
        return True
    cls = _classes()[names[which]]
    try:
        with cls(html_escape_double_quotes=dq, html_escape_single_quotes=sq, process_html_tokens=html) as r:
            has_html = block_token.HtmlBlock in block_token._token_types and span_token.HtmlSpan in span_token._token_types
            ok = (r.html_escape_double_quotes == dq and r.html_escape_single_quotes == sq and has_html == html)
            if which == 2:
                from vfy.lemmas.c08 import mk
                para = mk(block_token.Paragraph, children=[RawText(chr(c1))])
                doc = mk(block_token.Document, footnotes={}, children=[para])
                ok = ok and r.render_document(doc) == HtmlRenderer.render_document(r, doc) + cls.mathjax_src
    finally:
        block_token.reset_tokens()
        span_token.reset_tokens()
    return ok


def x2_replay(label, witness):
    from mistletoe.contrib.github_wiki import GithubWiki
    from mistletoe.latex_token import Math
    if label.startswith('GithubWiki'):
        m = GithubWiki.pattern.search(witness)
        ok = m is not None and not ('[[' in witness and '|' in witness and ']]' in witness)
    else:
        m = Math.pattern.search(witness)
        ok = m is not None and '$' not in witness
    return ok, '%s on %r -> %r' % (label, witness, m)


@rxlemma('X2.triggers', 'C18', covers=['contrib/github_wiki.py:GithubWiki.pattern', 'latex_token.py:Math.pattern'], replay=x2_replay,
         note='strings of ANY length: a match of GithubWiki.pattern implies "[[" ... "|" ... "]]" in order; a match of Math.pattern implies "$"')
def x2_triggers():
    import z3
    from vfy import rx
    from mistletoe.contrib.github_wiki import GithubWiki
    from mistletoe.latex_token import Math
    S_ = rx.Session()
    # search semantics: ALL . pattern . ALL
    gw = z3.Concat(rx.ALL, rx.match_language(GithubWiki.pattern))
    must = rx.match_language(r'(?s).*\[\[.*\|.*\]\]')
    S_.expect_sat('GithubWiki:matches', *rx.nonempty(gw))
    S_.expect_unsat('GithubWiki:match-implies-[[..|..]]', *rx.included(gw, must))
    mt = z3.Concat(rx.ALL, rx.match_language(Math.pattern))
    dollar = rx.match_language(r'(?s).*\$')
    S_.expect_sat('Math:matches', *rx.nonempty(mt))
    S_.expect_unsat('Math:match-implies-$', *rx.included(mt, dollar))
    for name, pat, lang in (('GithubWiki', GithubWiki.pattern, gw), ('Math', Math.pattern, mt)):
        bad = []
        for s in ['[[a|b]]', 'x [[ a | b ]] y', '[[a]]', '[a|b]', '$x$', '$$x$$ y', '$', 'a$b', '', 'plain']:
            if (pat.search(s) is not None) != rx.member(lang, s):
                bad.append(s)
        S_.detail.append({'query': 'translator validation ' + name, 'disagreements': bad})
        if bad:
            S_.verdict, S_.message = 'ERROR', 'translator disagrees with re on %r' % bad
    return S_.result()


X3_ALPH = ALPH14 + '$|\'~'


def has_code_block(doc):
    from mistletoe.utils import traverse
    for r in traverse(doc):
        if type(r.node).__name__ in ('CodeFence', 'BlockCode'):
            return True
    return False


def x3_renderers():
    c = _classes()
    return [(n, c[n]) for n in ('TocRenderer', 'GithubWikiRenderer', 'MathJaxRenderer', 'PygmentsRenderer') if n in c]


@lemma('X3.pipeline', 'C18', quick=[{'k': 1, 'sigma': True, 'dq': False, 'html': True}, {'k': 1, 'sigma': True, 'dq': True, 'html': False}] + by('c1', list('$[\'\\'), [{'k': 2, 'sigma': False, 'dq': False, 'html': True}]),
       thorough=[{'k': 1, 'sigma': True}] + by('c1', list(X3_ALPH), [{'k': 2, 'sigma': False}, {'k': 3, 'sigma': False, 'timeout': 3000}]),
       timeout=600, per_path=120, stubs=['urllib.parse.quote -> contract stub'],
       covers=['contrib/toc_renderer.py:TocRenderer.render_heading', 'contrib/mathjax.py:MathJaxRenderer.render_document',
               'contrib/github_wiki.py:GithubWikiRenderer.__init__', 'html_renderer.py:HtmlRenderer.render_document'],
       note='Toc, GithubWiki and MathJax output == HtmlRenderer output (+ script line) on every document meeting the per-renderer side condition; options symbolic')
def x3_pipeline(c1: int, c2: int, c3: int, dq: bool, sq: bool, html: bool) -> bool:
    """
    pre: fixed(c1, 'c1') and (all_ok(cp_md, P('k'), c1, c2, c3) if P('sigma') else all_in(X3_ALPH, P('k'), c1, c2, c3))
    pre: fixed(dq, 'dq') and fixed(html, 'html')
    post: _
    """
    from mistletoe import Document
    install_quote()
    from vfy.lemmas.c01 import stub_pygments
    stub_pygments(False)
    s = S(P('k'), c1, c2, c3)
    kw = {'html_escape_double_quotes': dq, 'html_escape_single_quotes': sq, 'process_html_tokens': html}
    with HtmlRenderer(**kw) as r:
        base = r.render(Document(s))
    for name, cls in x3_renderers():
        if name == 'MathJaxRenderer' and '$' in s:
            continue
        if name == 'GithubWikiRenderer' and '[[' in s and '|' in s and ']]' in s:
            continue
        with cls(**kw) as r:
            doc = Document(s)
            if name == 'PygmentsRenderer' and has_code_block(doc):
                continue
            out = r.render(doc)
        want = base + (cls.mathjax_src if name == 'MathJaxRenderer' else '')
        if out != want:
            return False
    return True


# ---------------------------------------------------------------------------------------- X4
# the derived renderers on REAL tokens with one symbolic attribute (see C01-T4): same output as HtmlRenderer

X4_SKIP = {'PygmentsRenderer': ('fence-language', 'fence-content', 'indented-content'), 'TocRenderer': (), 'GithubWikiRenderer': (), 'MathJaxRenderer': ()}


def _x4_jobs(ks_):
    from vfy.lemmas.c01 import T4_HOLES
    out = []
    for h in sorted(T4_HOLES):
        if h == 'math':
            continue
        for name in ('TocRenderer', 'GithubWikiRenderer', 'MathJaxRenderer', 'PygmentsRenderer'):
            if h in X4_SKIP[name]:
                continue
            for k in ks_:
                out.append({'hole': h, 'r': name, 'k': k})
    return out


def x4_deliverable(c1, c2, c3):
    from vfy.lemmas.c01 import T4_HOLES
    w = S(P('k'), c1, c2, c3)
    if P('r') == 'MathJaxRenderer':
        for ch in w:
            if ch == '$':
                return False           # a dollar sign can make a Math token under MathJaxRenderer only: outside "no extension construct"
    return T4_HOLES[P('hole')][3](w)


def x4_replay(c1, c2, c3, dq, sq, html):
    """through the public API only: some text delivering the attribute value is rendered differently"""
    from mistletoe import Document
    from vfy.lemmas.c01 import T4_HOLES
    w = S(P('k'), c1, c2, c3)
    skeleton, path, setter, deliverable, texts = T4_HOLES[P('hole')]
    if not deliverable(w) or (P('r') == 'MathJaxRenderer' and '$' in w):
        return False, 'pre-condition false for %r' % w
    cls = _classes()[P('r')]
    kw = {'html_escape_double_quotes': dq, 'html_escape_single_quotes': sq, 'process_html_tokens': html}
    for text in texts(w):
        if P('r') == 'MathJaxRenderer' and '$' in text:
            continue
        with HtmlRenderer(**kw) as r:
            base = r.render(Document(text))
        try:
            with cls(**kw) as r:
                out = r.render(Document(text))
        except Exception as e:
            return True, '%s(**%r).render(Document(%r)) raised %s: %s' % (cls.__name__, kw, text, type(e).__name__, e)
        want = base + (cls.mathjax_src if P('r') == 'MathJaxRenderer' else '')
        if out != want:
            return True, '%s(**%r) on %r: %r, HtmlRenderer: %r' % (cls.__name__, kw, text, out, base)
    return False, 'no text delivering %r is rendered differently' % w


@lemma('X4.render-attrs', 'C18', quick=[dict(j, dq=False, sq=False, html=True) for j in _x4_jobs([2])] + [j for j in _x4_jobs([1]) if j['hole'] in ('text', 'heading-text', 'link-title')],
       thorough=[dict(j, dq=False, sq=False, html=True) for j in _x4_jobs([2])] + _x4_jobs([0, 1, 2]) + [dict(j, timeout=3000) for j in _x4_jobs([3])], timeout=600, per_path=60, replay=x4_replay,
       stubs=['urllib.parse.quote -> contract stub', 'pygments -> stubs (code blocks excluded for PygmentsRenderer)', 'concrete skeleton parsed natively, one attribute replaced by the symbolic string'],
       covers=['contrib/toc_renderer.py:TocRenderer.render_heading', 'contrib/mathjax.py:MathJaxRenderer.render_document', 'contrib/github_wiki.py:GithubWikiRenderer.__init__',
               'contrib/pygments_renderer.py:PygmentsRenderer.__init__', 'html_renderer.py:HtmlRenderer.render_document'],
       note='every string attribute a renderer reads takes any k-character value the parser can deliver for it; each derived renderer returns exactly what HtmlRenderer returns '
            '(+ the script line for MathJax), quote / HTML options symbolic; counterexamples are replayed through Document(text) only')
def x4_render_attrs(c1: int, c2: int, c3: int, dq: bool, sq: bool, html: bool) -> bool:
    """
    pre: fixed(dq, 'dq') and fixed(sq, 'sq') and fixed(html, 'html') and all_ok(cp_md, P('k'), c1, c2, c3) and x4_deliverable(c1, c2, c3)
    post: _
    """
    from mistletoe import Document
    from vfy.lemma import untraced
    from vfy.lemmas.c01 import T4_HOLES, stub_pygments
    install_quote()
    stub_pygments(False)
    w = S(P('k'), c1, c2, c3)
    skeleton, path, setter, deliverable, texts = T4_HOLES[P('hole')]
    kw = {'html_escape_double_quotes': dq, 'html_escape_single_quotes': sq, 'process_html_tokens': html}
    outs = []
    for cls in (HtmlRenderer, _classes()[P('r')]):
        with cls(**kw) as r:
            with untraced():
                doc = Document(skeleton)
            t = doc
            for i in path:
                t = t.children[i]
            setter(t, w)
            outs.append(r.render(doc))
    want = outs[0] + (_classes()[P('r')].mathjax_src if P('r') == 'MathJaxRenderer' else '')
    return outs[1] == want
