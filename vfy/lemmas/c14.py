"""C14 -- ordinary prose passes through unchanged."""
import re
from vfy.lemma import lemma, rxlemma, P

OUTSIDE = ['multi-line paragraphs beyond two lines', 'code points above U+2FFFF in E2 queries',
           'characters that are white space to Python but not to CommonMark (oracles are applied on Σmd only)']


def _i1_targets():
    import mistletoe.block_token as bt
    return [
        ('Heading', bt.Heading.pattern, 'Heading', False),
        ('ThematicBreak', bt.ThematicBreak.pattern, 'ThematicBreak', False),
        ('CodeFence', bt.CodeFence.pattern, 'CodeFenceOpen', False),   # the back-tick-in-info-string rule is code: lemma I2
        ('List', bt.List.pattern, 'List', False),
        ('ListItem', bt.ListItem.pattern, 'ListItem', False),
        ('SetextUnderline', bt.Paragraph.setext_pattern, 'SetextUnderline', False),
        ('TableDelimiter', bt.Table.delimiter_row_pattern, 'TableDelimiter', True),
    ]


def excl_i1(name, line):
    """exclusion predicates of recorded findings (none while the fixes are in place)"""
    return False


def i1_replay(label, witness):
    """Property-level replay of an E2 witness line: the real pattern accepts it, the spec
    grammar does not, and the real parser indeed makes a non-paragraph block out of prose."""
    import mistletoe
    from mistletoe import Document
    from vfy.ref.grammar import COMPILED
    name = label.split(':')[0]
    tgt = {t[0]: t for t in _i1_targets()}[name]
    pat, full = tgt[1], tgt[3]
    real = (pat.fullmatch(witness) if full else pat.match(witness)) is not None
    spec = COMPILED[tgt[2]].match(witness) is not None
    if not real or spec:
        return False, 'regex level: impl=%s spec=%s on %r' % (real, spec, witness)
    if name in ('SetextUnderline',):
        doc = 'a\n' + witness
    elif name == 'TableDelimiter':
        doc = 'a|b\n' + witness
    else:
        doc = witness
    out = mistletoe.markdown(doc)
    return True, 'pattern %s accepts %r, the CommonMark grammar does not; markdown(%r) = %r' % (name, witness, doc, out)


@rxlemma('I1.block-starts', 'C14', covers=['block_token.py:Heading.pattern', 'block_token.py:ThematicBreak.pattern',
         'block_token.py:CodeFence.pattern', 'block_token.py:List.pattern', 'block_token.py:ListItem.pattern',
         'block_token.py:Paragraph.setext_pattern', 'block_token.py:Table.delimiter_row_pattern'],
         replay=i1_replay,
         note='L(impl) ⊆ L(spec) on lines over Σmd of ANY length; L(spec) ⊆ L(impl) is reported as information')
def i1_block_starts():
    from vfy import rx
    from vfy.ref.grammar import SPEC
    S = rx.Session()
    samples = rx.sample_lines(300)
    for name, pat, specname, full in _i1_targets():
        tail = rx.EPS if full else rx.ALL
        impl = rx.match_language(pat, tail=tail)
        spec = rx.match_language(SPEC[specname], tail=rx.EPS if full else rx.ALL)
        S.validate(name, pat, impl, samples[:150], fullmatch=full)
        S.validate(name + '/spec', re.compile(SPEC[specname]), spec, samples[150:250])
        S.expect_sat(name + ':impl', *rx.nonempty(impl, rx.MD_LINE))
        S.expect_sat(name + ':spec', *rx.nonempty(spec, rx.MD_LINE))
        S.expect_unsat(name + ':impl-within-spec', *rx.included(impl, spec, rx.MD_LINE))
        S.expect_unsat(name + ':spec-within-impl', *rx.included(spec, impl, rx.MD_LINE), info_only=True)
    return S.result()


# ------------------------------------------------------------------------------------- I2 (E1)

from vfy.lemmas.common import S, cp_md, all_ok, all_in, by, fixed   # noqa: E402


def no_nl(k, *cps):
    for c in cps[:k]:
        if c == 10:
            return False
    return True


def spec_indented(line):
    """spec 4.4: four or more columns of leading white space (tabs to the next multiple of 4) and the line is not blank"""
    col = 0
    for ch in line:
        if ch == ' ':
            col += 1
        elif ch == '\t':
            col += 4 - col % 4
        else:
            return col >= 4 and ch != '\n'
        if col >= 4:
            pass
    return False


@lemma('I2.coded-starts', 'C14', quick=[{'k': k} for k in (1, 2)], thorough=[{'k': k} for k in (1, 2, 3, 4, 5)], timeout=900, per_path=60,
       covers=['block_token.py:Quote.start', 'block_token.py:BlockCode.start', 'block_token.py:CodeFence.start', 'block_token.py:Table.start',
               'block_token.py:Footnote.start', 'block_token.py:ThematicBreak.start', 'block_token.py:Heading.start', 'block_token.py:List.start'],
       note='a line of k code points over Σmd (+ newline): each start() that is written as code (not only a pattern) accepts the line only if the CommonMark grammar does; '
            'a blank line is accepted by none of the starts that can interrupt a paragraph')
def i2_coded_starts(c1: int, c2: int, c3: int, c4: int, c5: int) -> bool:
    """
    pre: all_ok(cp_md, P('k'), c1, c2, c3, c4, c5) and no_nl(P('k'), c1, c2, c3, c4, c5)
    post: _
    """
    import mistletoe.block_token as bt
    from vfy.ref.grammar import COMPILED
    line = S(P('k'), c1, c2, c3, c4, c5) + '\n'
    if bt.Quote.start(line) and COMPILED['Quote'].match(line) is None:
        return False
    if bool(COMPILED['Quote'].match(line)) != bool(bt.Quote.start(line)):
        return False
    if bt.CodeFence.start(line) and COMPILED['CodeFence'].match(line) is None:
        return False
    if bt.BlockCode.start(line) and line.strip(' \t\n') != '' and not spec_indented(line):
        return False
    if bt.Table.start(line) and '|' not in line:
        return False
    if bt.Footnote.start(line) and '[' not in line:
        return False
    if line.strip(' \t\n') == '':
        for T in (bt.Heading, bt.Quote, bt.CodeFence, bt.ThematicBreak, bt.List):
            if T.start(line):
                return False
    return True


# ------------------------------------------------------------------------------------- I3 (E1)

I3_ALPH = 'a1 _*-+#>=|~^$%@[]&.()'
I3_PUNCT = '_*-+#>=|~^$%@[]&.()'


def inert(s):
    """independent, spec-derived inertness predicate for a ONE-line paragraph over I3_ALPH that
    neither starts nor ends with a space"""
    from vfy.ref.grammar import COMPILED
    from vfy.ref import emphasis as E
    line = s + '\n'
    for name in ('Heading', 'ThematicBreak', 'List', 'Quote', 'CodeFence'):
        if COMPILED[name].match(line):
            return False
    # emphasis: the reference delimiter algorithm finds nothing
    runs = []
    i = 0
    n = len(s)
    while i < n:
        c = s[i]
        if c == '*' or c == '_':
            j = i
            while j < n and s[j] == c:
                j += 1
            before = s[i - 1] if i > 0 else ' '
            after = s[j] if j < n else ' '
            ws_b, ws_a = before == ' ', after == ' '
            pu_b, pu_a = before in I3_PUNCT, after in I3_PUNCT
            left = (not ws_a) and ((not pu_a) or ws_b or pu_b)
            right = (not ws_b) and ((not pu_b) or ws_a or pu_a)
            if c == '*':
                op, cl = left, right
            else:
                op, cl = (left and ((not right) or pu_b)), (right and ((not left) or pu_a))
            runs.append((c, i, j, op, cl))
            i = j
        else:
            i += 1
    if E.process(runs):
        return False
    # strikethrough needs ~~x~~ ; links need '](' ; both impossible to complete here only if absent
    if '~~' in s and s.count('~~') >= 2:
        return False
    if '](' in s or '][' in s:
        return False
    return True


def _i3_parts(k):
    return by('c1', list(I3_ALPH.replace(' ', '').replace('>', '')), [{'k': k}])      # a line starting with '>' is never inert


@lemma('I3.inline', 'C14', quick=[{'k': 1}] + by('c1', list('a*_-#[&1='), [{'k': 2}]),
       thorough=[{'k': 1}] + _i3_parts(2) + [dict(p, timeout=5000) for p in _i3_parts(3)], timeout=900, per_path=120,
       covers=['block_token.py:Document.__init__', 'block_token.py:Paragraph.__init__', 'span_tokenizer.py:tokenize',
               'core_tokens.py:find_core_tokens', 'html_renderer.py:HtmlRenderer.render_paragraph', 'html_renderer.py:HtmlRenderer.render_raw_text'],
       note="one-line paragraphs of k characters over the property's inert-candidate characters (a 1 space _ * - + # > = | ~ ^ $ % @ [ ] & . ( )), filtered by the independent inertness predicate: rendered as exactly that text, HTML-escaped, in a single <p>")
def i3_inline(c1: int, c2: int, c3: int) -> bool:
    """
    pre: fixed(c1, 'c1') and all_in(I3_ALPH, P('k'), c1, c2, c3)
    pre: c1 != 32 and (P('k') < 2 or [c1, c2, c3][P('k') - 1] != 32)
    pre: inert(S(P('k'), c1, c2, c3))
    post: _
    """
    import html
    import mistletoe
    s = S(P('k'), c1, c2, c3)
    return mistletoe.markdown(s) == '<p>' + html.escape(s, quote=False) + '</p>\n'


I4_SKELETONS = {'wrap': '{0}a{0}', 'spaced': 'a {0} b {0} c', 'prefix': '{0}5 a, then {0}7 b', 'intraword': 'a{0}b c{0}d', 'suffix': 'a{0} b{0}',
                'mixed': 'x{0}{0}y z{0}w', 'three': '{0}a {0}b {0}c', 'nested': '({0}a [{0}b) c'}


@lemma('I4.repeated', 'C14', quick=[{'sk': k} for k in sorted(I4_SKELETONS)], timeout=600, per_path=120,
       covers=['span_tokenizer.py:tokenize', 'core_tokens.py:find_core_tokens', 'span_token.py:Strikethrough', 'html_renderer.py:HtmlRenderer.render_raw_text'],
       note="one-line prose skeletons in which the SAME symbolic character (over the property's inert-candidate characters) occurs two or three times -- "
            "what pairs up is markup -- filtered by the independent inertness predicate: rendered as exactly that text, escaped, in one paragraph")
def i4_repeated(c1: int) -> bool:
    """
    pre: all_in(I3_ALPH, 1, c1) and c1 != 32
    pre: inert(I4_SKELETONS[P('sk')].format(chr(c1)))
    post: _
    """
    import html
    import mistletoe
    s = I4_SKELETONS[P('sk')].format(chr(c1))
    return mistletoe.markdown(s) == '<p>' + html.escape(s, quote=False) + '</p>\n'


def witness_empty_list_marker():
    """(fixed) \\d{0,9} in List.pattern / ListItem.pattern made '. x' and ') x' bullet-less list items"""
    import mistletoe
    out = mistletoe.markdown('. x\n') + mistletoe.markdown(') x\n')
    return '<li>' in out, "markdown('. x') + markdown(') x') = %r" % out


def witness_mixed_setext():
    """(fixed) (=|-)+ accepted a mixed underline: 'a\\n=-=' became a heading"""
    import mistletoe
    out = mistletoe.markdown('a\n=-=\n')
    return '<h' in out, "markdown('a\\n=-=') = %r" % out


def witness_unicode_digit_marker():
    """(fixed) \\d in the list patterns matched every Unicode decimal digit: '٣. foo' became an ordered list"""
    import mistletoe
    out = mistletoe.markdown('٣. foo\n')
    return '<ol' in out, "markdown('\\u0663. foo') = %r" % out


# ---------------------------------------------------------------- I2b paragraph interruption

def digits_ok(k, *cs):
    for c in cs[:k]:
        if not (48 <= c <= 57):
            return False
    return True


INTERRUPT_SKELETONS = {
    # second line of a paragraph -> does CommonMark 0.30 let it interrupt the paragraph?
    'ordered-dot': ('{d}. x\n', 'one'), 'ordered-paren': ('{d}) x\n', 'one'), 'ordered-indented': ('  {d}. x\n', 'one'),
    'ordered-empty': ('{d}.\n', False), 'ordered-nospace': ('{d}.x\n', False),
    'number-word': ('{d} x\n', False), 'decimal': ('{d}.{d} x\n', False),
}


@lemma('I2.interrupt', 'C14', quick=[{'sk': s, 'k': k} for s in sorted(INTERRUPT_SKELETONS) for k in (1, 2)],
       thorough=[{'sk': s, 'k': k} for s in sorted(INTERRUPT_SKELETONS) for k in (1, 2, 3, 4)], timeout=600, per_path=90,
       covers=['block_token.py:Paragraph.read', 'block_token.py:List.check_interrupts_paragraph', 'block_token.py:ListItem.parse_marker'],
       note='a paragraph line followed by a line that starts with a number of k symbolic digits in list-marker-like positions: '
            'the paragraph is interrupted iff CommonMark allows it (an ordered list may interrupt a paragraph only if it starts with exactly 1 and is not empty); otherwise both lines stay one paragraph')
def i2_interrupt(d1: int, d2: int, d3: int, d4: int) -> bool:
    """
    pre: digits_ok(P('k'), d1, d2, d3, d4)
    post: _
    """
    import mistletoe
    d = S(P('k'), d1, d2, d3, d4)
    tmpl, rule = INTERRUPT_SKELETONS[P('sk')]
    line = tmpl.replace('{d}', d)
    out = mistletoe.markdown('prose\n' + line)
    may = (d == '1') if rule == 'one' else bool(rule)
    if may:
        return out.startswith('<p>prose</p>\n<ol')
    return out == '<p>prose\n' + line.strip() + '</p>\n'


# ---------------------------------------------------------------- shared with C06: flanking classes

@rxlemma('I3.flanking-classes', 'C14', covers=['core_tokens.py:punctuation', 'core_tokens.py:unicode_whitespace'],
         note='(shared with C06 E-sets) the character classes that decide whether an isolated or intraword delimiter stays literal equal the spec classes for every code point of Σmd')
def i3_flanking_classes():
    from vfy.lemmas.c06 import e_sets
    return e_sets.__wrapped__() if hasattr(e_sets, '__wrapped__') else e_sets()


def _i3fc_replay(label, cp):
    from vfy.lemmas.c06 import esets_replay
    return esets_replay(label, cp)


i3_flanking_classes.__lemma__.replay = _i3fc_replay


# ---------------------------------------------------------------- I5 '&' that does not start a character reference

ENT_ALPH = 'notagl'


@lemma('I5.ampersand', 'C14', quick=[{'k': k} for k in (1, 2, 3)], thorough=[{'k': k} for k in (1, 2, 3, 4, 5)], timeout=900, per_path=90,
       covers=['span_tokenizer.py:make_tokens', 'span_tokenizer.py:tokenize', 'span_token.py:RawText.__init__'],
       note="'x &NAME; y' with NAME of k letters over {n,o,t,a,g,l} (solver-enumerated: html.unescape is table driven): if NAME; is an HTML5 entity the character appears, otherwise the text passes through unchanged (escaped)")
def i5_ampersand(c1: int, c2: int, c3: int, c4: int, c5: int) -> bool:
    """
    pre: all_in(ENT_ALPH, P('k'), c1, c2, c3, c4, c5)
    pre: not excl_prefix_entity(SC(P('k'), ENT_ALPH, c1, c2, c3, c4, c5))
    post: _
    """
    import html
    import html.entities
    import mistletoe
    name = SC(P('k'), ENT_ALPH, c1, c2, c3, c4, c5)
    out = mistletoe.markdown('x &' + name + '; y')
    ent = html.entities.html5.get(name + ';')
    if ent is not None:
        return out == '<p>x ' + html.escape(ent, quote=False) + ' y</p>\n'
    return out == '<p>x &amp;' + name + '; y</p>\n'


def excl_prefix_entity(name):
    """recorded finding C14/legacy-entity-prefix: a name that merely STARTS with a legacy HTML entity name
    (&not, &lt, &gt, &amp ... without their semicolon) is partly decoded"""
    import html.entities
    if P('noexcl', False):
        return False
    if (name + ';') in html.entities.html5:
        return False
    for i in range(len(name), 1, -1):
        if name[:i] in html.entities.html5:       # legacy names are listed without ';'
            return True
    return False


def witness_legacy_entity_prefix():
    import mistletoe
    out = mistletoe.markdown('&notit; &ltx;')
    return out != '<p>&amp;notit; &amp;ltx;</p>\n', "markdown('&notit; &ltx;') = %r (CommonMark: not entities, literal text)" % out


from vfy.lemmas.common import SC   # noqa: E402
i5_ampersand.__lemma__.canary = [{'k': 4, 'noexcl': True}]


TABLE_ALPH = '-:| >a1+'


@lemma('I2.table', 'C14', quick=[{'k': k} for k in (1, 2, 3)], thorough=[{'k': k} for k in (1, 2, 3, 4, 5)], timeout=600, per_path=60,
       covers=['block_token.py:Table.read', 'block_token.py:Table.check_interrupts_paragraph'],
       note="'a | b' followed by a line of k symbolic characters over {- : | space > a 1 +}: Table.read accepts the pair only if the second line is a delimiter row by the GFM grammar (otherwise both lines stay prose)")
def i2_table(c1: int, c2: int, c3: int, c4: int, c5: int) -> bool:
    """
    pre: all_in(TABLE_ALPH, P('k'), c1, c2, c3, c4, c5)
    post: _
    """
    import mistletoe.block_token as bt
    import mistletoe.block_tokenizer as btk
    from vfy.ref.grammar import COMPILED
    x = S(P('k'), c1, c2, c3, c4, c5) + '\n'
    fw = btk.FileWrapper(['a | b\n', x, 'c | d\n'])
    res = bt.Table.read(fw)
    spec = COMPILED['TableDelimiter'].fullmatch(x) is not None and '|' in x
    if res is None:
        return fw._index == -1
    return spec


# ------------------------------------------------------------------------------------- I6 (E2)
# CommonMark 0.30 section 6.5, written from the text: an absolute URI is a scheme (letter, then 1-31 letters,
# digits, + . -), ':' and then characters other than ASCII control characters, space, < and >; an e-mail
# address is the HTML5 non-normative regex.
_EMAIL = (r"[a-zA-Z0-9.!#$%&'*+/=?^_`{|}~-]+@[a-zA-Z0-9](?:[a-zA-Z0-9-]{0,61}[a-zA-Z0-9])?"
          r"(?:\.[a-zA-Z0-9](?:[a-zA-Z0-9-]{0,61}[a-zA-Z0-9])?)*")
SPEC_AUTOLINK = r"<(?:[A-Za-z][A-Za-z0-9+.-]{1,31}:[^\x00-\x20\x7f<>]*|" + _EMAIL + r")>"
_ESC_PREFIX = r"(?<!\\)(?:\\\\)*"      # "not escaped": the lemma is about the part after it


def _autolink_body():
    """AutoLink.pattern without its leading 'is not escaped' look-behind (the translator has no look-behind;
    the prefix is compared literally, so any change to it makes the lemma inconclusive, not confirmed)"""
    import re
    import mistletoe.span_token as st
    src = st.AutoLink.pattern.pattern
    if not src.startswith(_ESC_PREFIX):
        return None
    return re.compile(src[len(_ESC_PREFIX):], st.AutoLink.pattern.flags & ~re.UNICODE | re.UNICODE)


def i6_replay(label, witness):
    """the real pattern accepts the witness, the spec grammar does not, and the prose 'x <witness> y'
    does not come back as escaped text"""
    import html
    import re
    import mistletoe
    import mistletoe.span_token as st
    real = st.AutoLink.pattern.fullmatch(witness) is not None
    spec = re.fullmatch(SPEC_AUTOLINK, witness) is not None
    if not real or spec:
        return False, 'regex level: impl=%s spec=%s on %r' % (real, spec, witness)
    text = 'x ' + witness + ' y'
    out = mistletoe.markdown(text)
    want = '<p>' + html.escape(text, quote=False) + '</p>\n'
    return out != want, 'AutoLink.pattern accepts %r, CommonMark 6.5 does not; markdown(%r) = %r' % (witness, text, out)


@rxlemma('I6.autolink-language', 'C14', covers=['span_token.py:AutoLink.pattern'], replay=i6_replay,
         note='L(AutoLink.pattern after its escape look-behind) ⊆ L(CommonMark 6.5 autolink) on one-line texts of ANY length '
              'without ASCII control characters (prose is words, punctuation and spaces); with control characters: information only')
def i6_autolink_language():
    import re
    from vfy import rx
    S = rx.Session()
    pat = _autolink_body()
    if pat is None:
        S.verdict, S.message = 'UNKNOWN', 'AutoLink.pattern does not begin with the expected escape look-behind: not encodable'
        return S.result()
    impl = rx.match_language(pat, tail=rx.EPS)
    spec = rx.match_language(re.compile(SPEC_AUTOLINK), tail=rx.EPS)
    samples = ['<a:b>', '<ab:c>', '<ab: c>', '<re: x>', '<http://x.y/z?q=1>', '<a@b.c>', '<a@b>', '<a@-b>', '<ab:>', '<ab:<>', 'ab:c', '<ab:c',
               '<a1+.-:x y>', '<x@y.zz.>', '<ab:\tc>', '<1b:c>', '<' + 'a' * 33 + ':c>', '<' + 'a' * 32 + ':c>', '<é:c>', '<ab:é>', '<>', '<ab>',
               '<a@b.' + 'c' * 63 + '>', '<a@b.' + 'c' * 64 + '>', '<a b@c.d>', '<ab:c>d', ' <ab:c>']
    S.validate('AutoLink', pat, impl, samples, fullmatch=True)
    S.validate('AutoLink/spec', re.compile(SPEC_AUTOLINK), spec, samples, fullmatch=True)
    prose = z3_star_no_controls()
    S.expect_sat('AutoLink:impl', *rx.nonempty(impl, prose))
    S.expect_sat('AutoLink:spec', *rx.nonempty(spec, prose))
    S.expect_unsat('AutoLink:impl-within-spec', *rx.included(impl, spec, prose))
    S.expect_unsat('AutoLink:impl-within-spec (control characters allowed)', *rx.included(impl, spec, None), info_only=True)
    S.expect_unsat('AutoLink:spec-within-impl', *rx.included(spec, impl, prose), info_only=True)
    return S.result()


def z3_star_no_controls():
    import z3
    from vfy import rx
    return z3.Star(rx.ranges_re(rx._complement([(0, 0x1f), (0x7f, 0x7f)] + rx.XWS_RANGES)))
