"""C14 -- ordinary prose passes through unchanged."""
import re
from vfy.lemma import lemma, rxlemma, P

OUTSIDE = ['multi-line paragraphs beyond two lines', 'code points above U+2FFFF in E2 queries',
           'characters that are white space to Python but not to CommonMark (oracles are applied on Σmd only)']


def _i1_targets():
    import mistletoe.block_token as bt
    return [
        ('Heading', bt.Heading.pattern, 'Heading', False),
        ('ThematicBreak', bt.ThematicBreak.pattern, 'ThematicBreak', False),
        ('CodeFence', bt.CodeFence.pattern, 'CodeFence', False),
        ('List', bt.List.pattern, 'List', False),
        ('ListItem', bt.ListItem.pattern, 'ListItem', False),
        ('SetextUnderline', bt.Paragraph.setext_pattern, 'SetextUnderline', False),
        ('TableDelimiter', bt.Table.delimiter_row_pattern, 'TableDelimiter', True),
    ]


def excl_i1(name, line):
    """exclusion predicates of recorded findings (none while the fixes are in place)"""
    return False


def i1_replay(label, witness):
    """Property-level replay of an E2 witness line: the real pattern accepts it, the spec
    grammar does not, and the real parser indeed makes a non-paragraph block out of prose."""
    import mistletoe
    from mistletoe import Document
    from vfy.ref.grammar import COMPILED
    name = label.split(':')[0]
    tgt = {t[0]: t for t in _i1_targets()}[name]
    pat, full = tgt[1], tgt[3]
    real = (pat.fullmatch(witness) if full else pat.match(witness)) is not None
    spec = COMPILED[tgt[2]].match(witness) is not None
    if not real or spec:
        return False, 'regex level: impl=%s spec=%s on %r' % (real, spec, witness)
    if name in ('SetextUnderline',):
        doc = 'a\n' + witness
    elif name == 'TableDelimiter':
        doc = 'a|b\n' + witness
    else:
        doc = witness
    out = mistletoe.markdown(doc)
    return True, 'pattern %s accepts %r, the CommonMark grammar does not; markdown(%r) = %r' % (name, witness, doc, out)


@rxlemma('I1.block-starts', 'C14', covers=['block_token.py:Heading.pattern', 'block_token.py:ThematicBreak.pattern',
         'block_token.py:CodeFence.pattern', 'block_token.py:List.pattern', 'block_token.py:ListItem.pattern',
         'block_token.py:Paragraph.setext_pattern', 'block_token.py:Table.delimiter_row_pattern'],
         replay=i1_replay,
         note='L(impl) ⊆ L(spec) on lines over Σmd of ANY length; L(spec) ⊆ L(impl) is reported as information')
def i1_block_starts():
    from vfy import rx
    from vfy.ref.grammar import SPEC
    S = rx.Session()
    samples = rx.sample_lines(300)
    for name, pat, specname, full in _i1_targets():
        tail = rx.EPS if full else rx.ALL
        impl = rx.match_language(pat, tail=tail)
        spec = rx.match_language(SPEC[specname], tail=rx.EPS if full else rx.ALL)
        S.validate(name, pat, impl, samples[:150], fullmatch=full)
        S.validate(name + '/spec', re.compile(SPEC[specname]), spec, samples[150:250])
        S.expect_sat(name + ':impl', *rx.nonempty(impl, rx.MD_LINE))
        S.expect_sat(name + ':spec', *rx.nonempty(spec, rx.MD_LINE))
        S.expect_unsat(name + ':impl-within-spec', *rx.included(impl, spec, rx.MD_LINE))
        S.expect_unsat(name + ':spec-within-impl', *rx.included(spec, impl, rx.MD_LINE), info_only=True)
    return S.result()
