"""C15 -- the same text gives the same result however it is supplied."""
import io
from vfy.lemma import lemma, P, give_up
from vfy.lemmas.common import S, cp_md, all_ok, all_in, ks, ALPH14, by, fixed, cell, cells
from mistletoe import block_token as bt

ASSUMPTIONS = ["C15: text-mode file objects are modelled by their contract on the property's domain (only '\\n' terminators): "
               "iteration yields the pieces of the text cut after each '\\n'",
               'C15/D2: builtins.open and sys.stdout are stubs (no real file system / encoding layer)']
OUTSIDE = ['real file-system and encoding behaviour', "the CLI's -r import path", 'documents longer than the bounds']


class FakeFile:
    """contract of an open text file on the property's domain: iteration cuts after every '\\n'"""
    def __init__(self, text):
        self.text = text

    def __iter__(self):
        cur = []
        for ch in self.text:
            cur.append(ch)
            if ch == '\n':
                yield ''.join(cur)
                cur = []
        if cur:
            yield ''.join(cur)

    def __enter__(self):
        return self

    def __exit__(self, *a):
        return False


def split_nl(s):
    """list-of-lines form: cut at '\\n', terminators kept"""
    return list(FakeFile(s))


@lemma('D1.normalisation', 'C15', quick=ks(3)[1:], thorough=ks(3)[1:] + cells('c1cell', ['\n', ' \t'], [{'k': 4, 'timeout': 3000}, {'k': 5, 'timeout': 6000}]), timeout=600,
       stubs=['block_token.tokenize -> recorder'],
       covers=['block_token.py:Document.__init__'],
       note="the line list that reaches the block tokenizer is the same for s, s+'\\n', the list of lines with and without final newline, and a file object; all s over Σmd (incl. '\\n', tab) of each length")
def d1_norm(c1: int, c2: int, c3: int, c4: int, c5: int) -> bool:
    """
    pre: cell(c1, 'c1cell') and all_ok(cp_md, P('k'), c1, c2, c3, c4, c5)
    post: _
    """
    s = S(P('k'), c1, c2, c3, c4, c5)
    seen = []
    orig = bt.tokenize
    bt.tokenize = lambda lines: (seen.append(list(lines)), [])[1]
    try:
        bt.Document(s)
        if not s.endswith('\n'):
            bt.Document(s + '\n')
        lines = split_nl(s)
        bt.Document(list(lines))
        if lines and lines[-1].endswith('\n'):
            bt.Document(lines[:-1] + [lines[-1][:-1]])
        bt.Document(FakeFile(s))
    finally:
        bt.tokenize = orig
    if not seen:
        give_up('block_token.tokenize was not called by Document.__init__')
    for x in seen[1:]:
        if x != seen[0]:
            return False
    return len(seen) >= 3


@lemma('D1.empty', 'C15', timeout=60, covers=['block_token.py:Document.__init__'],
       note="s = '' and s = '\\n' are concrete cases: every input form gives the same output under the Html, Markdown and Ast renderers")
def d1_empty(dummy: bool) -> bool:
    """
    post: _
    """
    import mistletoe
    from mistletoe.markdown_renderer import MarkdownRenderer
    from mistletoe.ast_renderer import AstRenderer
    for R in (mistletoe.HtmlRenderer, MarkdownRenderer, AstRenderer):
        # the empty text in every form (a renderer that keeps blank lines would show a stray one)
        outs = [mistletoe.markdown(x, R) for x in ('', [], FakeFile(''), iter([]))]
        if not all(o == outs[0] for o in outs):
            return False
        # one blank line in every form
        outs = [mistletoe.markdown(x, R) for x in ('\n', ['\n'], [''], FakeFile('\n'))]
        if not all(o == outs[0] for o in outs):
            return False
    return True


class _Out:
    def __init__(self):
        self.chunks = []
        self.buffer = self

    def write(self, b):
        self.chunks.append(b)


@lemma('D2.cli', 'C15', quick=by('c1', list(ALPH14), [{'k': 2}]), thorough=by('c1', list(ALPH14), [{'k': 2}, {'k': 3, 'timeout': 3000}]),
       timeout=600, per_path=90,
       stubs=['builtins.open -> FakeFile', 'sys.stdout -> recorder'],
       covers=['cli.py:main', 'cli.py:convert', 'cli.py:convert_file', '__init__.py:markdown'],
       note='cli.main([f1, f2]) with two files: the first has symbolic content over the 14-character alphabet, the second is concrete')
def d2_cli(c1: int, c2: int, c3: int) -> bool:
    """
    pre: fixed(c1, 'c1') and all_in(ALPH14, P('k'), c1, c2, c3)
    post: _
    """
    import builtins
    import sys
    import mistletoe
    from mistletoe import cli
    s1 = S(P('k'), c1, c2, c3)
    s2 = '# t\n\n- x'
    files = {'f1.md': s1, 'f2.md': s2}
    out = _Out()
    real_open, real_stdout = builtins.open, sys.stdout

    def fake_open(name, mode='r', encoding=None):
        if name not in files or mode != 'r' or encoding != 'utf-8':
            raise OSError(name)
        return FakeFile(files[name])
    builtins.open = fake_open
    sys.stdout = out
    try:
        cli.main(['f1.md', 'f2.md'])
    finally:
        builtins.open = real_open
        sys.stdout = real_stdout
    want = (mistletoe.markdown(s1) + mistletoe.markdown(s2)).encode()
    return b''.join(out.chunks) == want


@lemma('D3.pipeline', 'C15', quick=[{'k': 1, 'sigma': True}] + by('c1', list(ALPH14), [{'k': 2, 'sigma': False}]),
       thorough=[{'k': 1, 'sigma': True}, {'k': 2, 'sigma': True, 'timeout': 3000}] + by('c1', list(ALPH14), [{'k': 3, 'sigma': False, 'timeout': 3000}]),
       timeout=600, per_path=90,
       covers=['block_token.py:Document.__init__', '__init__.py:markdown'],
       note='whole pipeline: outputs of the three input forms agree (HtmlRenderer)')
def d3_pipeline(c1: int, c2: int, c3: int) -> bool:
    """
    pre: fixed(c1, 'c1') and (all_ok(cp_md, P('k'), c1, c2, c3) if P('sigma') else all_in(ALPH14, P('k'), c1, c2, c3))
    post: _
    """
    import mistletoe
    from vfy.plug.stubs import install_quote
    install_quote()
    s = S(P('k'), c1, c2, c3)
    a = mistletoe.markdown(s)
    b = mistletoe.markdown(split_nl(s))
    c = mistletoe.markdown(FakeFile(s))
    d = mistletoe.markdown(s + '\n') if not s.endswith('\n') else a
    return a == b and a == c and a == d
