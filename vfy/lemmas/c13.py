"""C13 -- every block token reports the source line on which it starts.

Block phase only: the line numbers are fixed by block_tokenizer.tokenize_block and the
container readers (Quote.read, ListItem.read, Table.__init__, TableRow.__init__) before any
inline parsing.  Skeleton documents with distinct constructs; the number of blank lines at
each marked place (0..3) and the start line S (UNBOUNDED) are symbolic.
"""
from vfy.lemma import lemma, P
from mistletoe import block_token as bt, block_tokenizer as btk, token as tokmod

ASSUMPTIONS = ['C13: skeleton documents are fixed lists in vfy/lemmas/c13.py; blank-line counts 0..3 and the start line are symbolic']
OUTSIDE = ['documents that are not one of the skeletons (each reader is covered on its own by N2)']

# A skeleton is a list of entries:
#   ('b', i)                   -> blank_counts[i] blank lines
#   (text, [names...])         -> one source line; names = block tokens that START on this line, in
#                                 depth-first order (outer before inner)
SKELETONS = {
    'leaf-blocks': [('b', 0), ('# h\n', ['Heading']), ('b', 1), ('p\n', ['Paragraph']), ('q\n', []), ('b', 2),
                    ('---\n', ['ThematicBreak']), ('b', 1), ('```\n', ['CodeFence']), ('x\n', []), ('```\n', []),
                    ('s\n', ['SetextHeading']), ('===\n', [])],
    'quote': [('b', 0), ('> a\n', ['Quote', 'Paragraph']), ('> b\n', []), ('>\n', []), ('> # h\n', ['Heading']), ('b', 1),
              ('z\n', ['Paragraph'])],
    'quote-lazy': [('> a\n', ['Quote', 'Paragraph']), ('lazy\n', []), ('b', 0), ('> - i\n', ['Quote', 'List', 'ListItem', 'Paragraph']),
                   ('b', 1), ('t\n', ['Paragraph'])],
    'list': [('b', 0), ('- a\n', ['List', 'ListItem', 'Paragraph']), ('b', 1), ('  b\n', ['Paragraph']), ('- c\n', ['ListItem', 'Paragraph']),
             ('  > q\n', ['Quote', 'Paragraph']), ('b', 2), ('end\n', ['Paragraph'])],
    'list-blank-start': [('-\n', ['List', 'ListItem']), ('  foo\n', ['Paragraph']), ('b', 0), ('  bar\n', ['Paragraph']), ('b', 1),
                         ('1.\n', ['List', 'ListItem']), ('   # h\n', ['Heading'])],
    'ordered-nested': [('1. a\n', ['List', 'ListItem', 'Paragraph']), ('b', 0), ('   - b\n', ['List', 'ListItem', 'Paragraph']),
                       ('b', 1), ('     c\n', ['Paragraph']), ('2. d\n', ['ListItem', 'Paragraph'])],
    'table': [('b', 0), ('|a|b|\n', ['Table', 'TableRow', 'TableCell', 'TableCell']), ('|-|-|\n', []),
              ('|c|d|\n', ['TableRow', 'TableCell', 'TableCell']), ('|e|f|\n', ['TableRow', 'TableCell', 'TableCell']), ('b', 1),
              ('p\n', ['Paragraph'])],
    'defs-and-code': [('[l]: /u\n', []), ('b', 0), ('p [l]\n', ['Paragraph']), ('b', 1), ('[m]: /v\n', []), ('    code\n', ['BlockCode']),
                      ('b', 2), ('    more\n', []), ('b', 1), ('<div>\n', ['HtmlBlock']), ('x\n', [])],
    'quote-in-item': [('- > q\n', ['List', 'ListItem', 'Quote', 'Paragraph']), ('  > r\n', []), ('b', 0), ('  p\n', ['Paragraph']), ('b', 1),
                      ('> - i\n', ['Quote', 'List', 'ListItem', 'Paragraph']), ('>   j\n', [])],
    # second batch: less travelled sites -- setext headings and tables inside containers, definitions in front of
    # other blocks (Footnote.read backtracking), HTML blocks and fences inside containers, two-level quotes, lazy
    # continuation, tab-indented content, every paragraph interrupter without a blank line
    'setext-nested': [('- t\n', ['List', 'ListItem', 'SetextHeading']), ('  --\n', []), ('b', 0), ('1. u\n', ['List', 'ListItem', 'SetextHeading']),
                      ('   ==\n', []), ('b', 1), ('p\n', ['SetextHeading']), ('==\n', [])],
    'defs-then-blocks': [('[a]: /u\n', []), ('[b]: /v\n', []), ('# h\n', ['Heading']), ('b', 0), ('[c]: /w\n', []), ('text\n', ['Paragraph']),
                         ('b', 1), ('> [d]: /x\n', ['Quote']), ('> p\n', ['Paragraph']), ('b', 2), ('- [e]: /y\n', ['List', 'ListItem']),
                         ('  q\n', ['Paragraph'])],
    'table-nested': [('> |a|\n', ['Quote', 'Table', 'TableRow', 'TableCell']), ('> |-|\n', []), ('> |c|\n', ['TableRow', 'TableCell']), ('b', 0),
                     ('- |d|\n', ['List', 'ListItem', 'Table', 'TableRow', 'TableCell']), ('  |-|\n', []), ('  |e|\n', ['TableRow', 'TableCell']),
                     ('b', 1), ('z\n', ['Paragraph'])],
    'html-fence-nested': [('> <div>\n', ['Quote', 'HtmlBlock']), ('> x\n', []), ('b', 0), ('- ```\n', ['List', 'ListItem', 'CodeFence']),
                          ('  c\n', []), ('b', 1), ('  ```\n', []), ('  after\n', ['Paragraph']), ('b', 2), ('<!-- c\n', ['HtmlBlock']),
                          ('-->\n', []), ('t\n', ['Paragraph'])],
    'deep': [('> > - a\n', ['Quote', 'Quote', 'List', 'ListItem', 'Paragraph']), ('> >\n', []), ('> >   b\n', ['Paragraph']), ('b', 0),
             ('1) x\n', ['List', 'ListItem', 'Paragraph']), ('b', 1), ('   1) y\n', ['List', 'ListItem', 'Paragraph']), ('b', 2),
             ('      > z\n', ['Quote', 'Paragraph'])],
    'lazy-list': [('- a\n', ['List', 'ListItem', 'Paragraph']), ('lazy\n', []), ('b', 0), ('- b\n', ['ListItem', 'Paragraph']), ('b', 1),
                  ('    more\n', ['Paragraph']), ('b', 2), ('# end\n', ['Heading'])],
    'tabs': [('-\ta\n', ['List', 'ListItem', 'Paragraph']), ('b', 0), ('\tb\n', ['Paragraph']), ('b', 1), ('>\tq\n', ['Quote', 'Paragraph']),
             ('b', 2), ('\tcode\n', ['BlockCode'])],
    'para-then-interrupters': [('p\n', ['Paragraph']), ('# h\n', ['Heading']), ('q\n', ['Paragraph']), ('> r\n', ['Quote', 'Paragraph']),
                               ('- s\n', ['List', 'ListItem', 'Paragraph']), ('```\n', ['CodeFence']), ('b', 0), ('```\n', []), ('u\n', ['Paragraph']),
                               ('***\n', ['ThematicBreak']), ('b', 1), ('v\n', ['Paragraph']), ('    w\n', [])],
}
NBLANKS = {name: 1 + max([e[1] for e in sk if e[0] == 'b'] + [-1]) for name, sk in SKELETONS.items()}


def assemble(skeleton, blanks):
    lines = []
    expect = []
    for e in skeleton:
        if e[0] == 'b':
            for _ in range(blanks[e[1]]):
                lines.append('\n')
        else:
            lines.append(e[0])
            for name in e[1]:
                expect.append((name, len(lines)))
    return lines, expect


def dfs(tokens, acc):
    for t in tokens:
        name = type(t).__name__
        acc.append((name, t.line_number))
        if name == 'Table':
            # the header row is kept outside children
            hdr = getattr(t, 'header', None)
            if hdr is not None:
                dfs([hdr], acc)
        kids = t.children
        if kids is not None and name in ('Quote', 'List', 'ListItem', 'Table', 'TableRow', 'Document'):
            dfs(kids, acc)
    return acc


def excl_blank_start(name):
    return False


def run_skeleton(name, blanks, S, html_block=True):
    types = list(bt._token_types)
    if html_block and bt.HtmlBlock not in types:
        types.insert(0, bt.HtmlBlock)
    lines, expect = assemble(SKELETONS[name], blanks)
    root = bt.Document.__new__(bt.Document)
    root.footnotes = {}
    saved = (bt._token_types, tokmod._root_node)
    bt._token_types = types
    tokmod._root_node = root
    try:
        pb = btk.tokenize_block(lines, types, start_line=S)
        toks = btk.make_tokens(pb)
    finally:
        bt._token_types, tokmod._root_node = saved
        bt.Paragraph.parse_setext = True
    got = dfs(toks, [])
    want = [(n, S - 1 + i) for n, i in expect]
    return got, want


@lemma('N3.skeletons', 'C13', quick=[{'sk': n} for n in sorted(SKELETONS)], thorough=[{'sk': n, 'B': 6, 'timeout': 3000} for n in sorted(SKELETONS)], timeout=400, per_path=60,
       covers=['block_tokenizer.py:tokenize_block', 'block_tokenizer.py:FileWrapper.line_number', 'block_token.py:Quote.read',
               'block_token.py:ListItem.read', 'block_token.py:Table.__init__', 'block_token.py:TableRow.__init__'],
       note='blank-line counts b_i in 0..3 (thorough: 0..6; solver-enumerated), start line S unbounded; expected numbers come from how the skeleton was assembled')
def n3_skeletons(b0: int, b1: int, b2: int, S: int) -> bool:
    """
    pre: 0 <= b0 <= P('B', 3) and 0 <= b1 <= P('B', 3) and 0 <= b2 <= P('B', 3)
    pre: blanks_used(b0, b1, b2)
    post: _
    """
    got, want = run_skeleton(P('sk'), [b0, b1, b2], S)
    return got == want


def blanks_used(b0, b1, b2):
    """counts that the skeleton does not use are pinned to 0; a blank count that must be >= 1
    to keep two paragraphs apart is constrained by the skeleton table below"""
    n = NBLANKS[P('sk')]
    bs = [b0, b1, b2]
    for i in range(n, 3):
        if bs[i] != 0:
            return False
    for i in MIN1.get(P('sk'), ()):
        if bs[i] < 1:
            return False
    return True


# blank counts that separate two blocks which would otherwise merge (so that the expected block
# list is the same for every admitted count)
MIN1 = {
    'leaf-blocks': (1, 2), 'quote': (1,), 'quote-lazy': (0, 1), 'list': (1, 2), 'list-blank-start': (0, 1),
    'ordered-nested': (1,), 'table': (), 'defs-and-code': (0, 1, 2), 'quote-in-item': (0, 1),
    'setext-nested': (0, 1),
    'defs-then-blocks': (1, 2),
    'table-nested': (0, 1),
    'html-fence-nested': (0, 2),
    'deep': (0,),
    'lazy-list': (0, 1, 2),
    'tabs': (0, 1, 2),
    'para-then-interrupters': (),
}


# N1 / C05-F2: translation by the start line, on a flat document, S unbounded
@lemma('N1.shift', 'C13', timeout=200,
       covers=['block_tokenizer.py:tokenize_block', 'block_tokenizer.py:FileWrapper.line_number'],
       note='every recorded line number for start line S equals the one for S=1 plus S-1, at every nesting level')
def n1_shift(S: int, k: int) -> bool:
    """
    pre: 0 <= k <= 3
    post: _
    """
    return shift_body(S, k)


def shift_body(S, k):
    # NOTE: a plain helper WITHOUT a contract: CrossHair enforces the contract of any contracted function that
    # a lemma calls and silently ignores paths on which the callee's post-condition fails.
    lines = ['\n'] * k + ['# a\n', '\n', 'p\n', 'q\n', '\n', '> x\n', '> - y\n', '\n', '---\n', '- a\n', '\n', '  b\n', '|a|\n', '|-|\n', '|c|\n']
    root = bt.Document.__new__(bt.Document)
    root.footnotes = {}
    tokmod._root_node = root
    try:
        a = dfs(btk.make_tokens(btk.tokenize_block(list(lines), bt._token_types, start_line=S)), [])
        b = dfs(btk.make_tokens(btk.tokenize_block(list(lines), bt._token_types, start_line=1)), [])
    finally:
        tokmod._root_node = None
        bt.Paragraph.parse_setext = True
    return len(a) == len(b) and all(x[0] == y[0] and x[1] == y[1] + S - 1 for x, y in zip(a, b))


def witness_blank_start():
    """(fixed) a list item that begins with a blank line: its first child was reported one line early"""
    from mistletoe import Document
    doc = Document('-\n  foo\n')
    para = doc.children[0].children[0].children[0]
    return para.line_number != 2, "Document('-\\n  foo\\n'): paragraph line_number=%r (expected 2)" % para.line_number
