"""C08 -- HTML output is well-formed; document text cannot inject markup.

Structural induction over the token tree: leaves are produced by the escaping kernels (H1),
inner nodes by fixed templates around already well-formed fragments (H2); raw HTML enters
only through HtmlBlock / HtmlSpan tokens (H3, whole pipeline on tiny documents).
"""
import html
from vfy.lemma import lemma, P, Duck
import vfy.lemma as L
from vfy.lemmas.common import ALPH14, cp_ok, cp_md, cp_in, S, all_ok, all_in, ks, fixed, by
from vfy.plug.stubs import install_quote
from mistletoe.html_renderer import HtmlRenderer
from mistletoe import span_token, block_token

ASSUMPTIONS = ['urllib.parse.quote is replaced by a contract stub on symbolic input (safe characters copied, every other '
               'character -> %XX triplets); the stub is self-tested against the real quote on every non-surrogate code point each run',
               'Σ excludes lone surrogates (not Unicode scalar values; str.encode rejects them)',
               'rendered integers (list start) are modelled as an arbitrary non-empty digit string']
OUTSIDE = ['attribute strings longer than 2 and text longer than 3 characters (the templates interpolate, they do not inspect; kernels are per-character)',
           'documents longer than the H3 sweep', 'Pygments / contrib renderers (C18 relates them to HtmlRenderer)']

ENTITIES = ('&amp;', '&lt;', '&gt;', '&quot;', '&#x27;')
VOCAB = ('p', 'h1', 'h2', 'h3', 'h4', 'h5', 'h6', 'blockquote', 'pre', 'code', 'ul', 'ol', 'li', 'table', 'thead',
         'tbody', 'tr', 'th', 'td', 'hr', 'br', 'em', 'strong', 'del', 'a', 'img')
VOID = ('hr', 'br', 'img')
ATTRS = {'a': ('href', 'title'), 'img': ('src', 'alt', 'title'), 'code': ('class',), 'ol': ('start',),
         'td': ('align',), 'th': ('align',)}
LOWER = 'abcdefghijklmnopqrstuvwxyz0123456789'


def is_lower(ch):
    """[a-z0-9], as two range tests (cheaper for the solver than membership in a 36-character string)"""
    return 'a' <= ch <= 'z' or '0' <= ch <= '9'


def amp_ok(out):
    """every '&' starts one of the five entities"""
    i = out.find('&')
    while i != -1:
        if not out.startswith(ENTITIES, i):
            return False
        i = out.find('&', i + 1)
    return True


def wf_html(out):
    """Well-formedness scanner written from the property text: tags only from the renderer's
    vocabulary, properly nested, void tags written '<x />', attributes from the per-tag list,
    double-quoted, values without '"', '<', '>'; text without raw '<', '>', and '&' only as the
    start of one of the five entities."""
    stack = []
    i = 0
    n = len(out)
    while i < n:
        c = out[i]
        if c == '<':
            i += 1
            closing = i < n and out[i] == '/'
            if closing:
                i += 1
            j = i
            while j < n and is_lower(out[j]):
                j += 1
            name = out[i:j]
            if name not in VOCAB:
                return False
            i = j
            if closing:
                if i >= n or out[i] != '>':
                    return False
                if not stack or stack.pop() != name:
                    return False
                i += 1
                continue
            while True:
                if i >= n:
                    return False
                if out[i] == '>':
                    if name in VOID:
                        return False
                    stack.append(name)
                    i += 1
                    break
                if out.startswith(' />', i):
                    if name not in VOID:
                        return False
                    i += 3
                    break
                if out[i] != ' ':
                    return False
                i += 1
                j = i
                while j < n and is_lower(out[j]):
                    j += 1
                if out[i:j] not in ATTRS.get(name, ()):
                    return False
                if not out.startswith('="', j):
                    return False
                i = j + 2
                while True:
                    if i >= n:
                        return False
                    ch = out[i]
                    if ch == '"':
                        break
                    if ch == '<' or ch == '>':
                        return False
                    i += 1
                i += 1
        elif c == '>':
            return False
        elif c == '&':
            if not out.startswith(ENTITIES, i):
                return False
            i += 1
        else:
            i += 1
    return not stack


# ------------------------------------------------------------------------------- H1 kernels

def _renderer(dq, sq, process_html=True):
    """an HtmlRenderer built by its real constructor (so that whatever __init__ sets up is there), with the
    global token lists put back at once: the kernel / template lemmas call methods on directly built tokens"""
    r = HtmlRenderer(html_escape_double_quotes=dq, html_escape_single_quotes=sq, process_html_tokens=process_html)
    block_token.reset_tokens()
    span_token.reset_tokens()
    return r


_Q4 = [(False, False), (True, False), (False, True), (True, True)]


def first_is(c1):
    """partition on the first code point: one of the five HTML-special characters, or 'other'"""
    w = P('c1', '*')
    if w == '*':
        return True
    if w == 'other':
        return not first_listed(c1)
    return c1 == ord(w)


def first_listed(c1):
    """'other' is the complement of the first characters that have a cell of their own in this job list"""
    for w in P('c1_cells', ['&', '<', '>', '"', "'"]):
        if c1 == ord(w):
            return True
    return False


@lemma('H1.text', 'C08', quick=ks(2) + by('dq', [False, True], by('sq', [False, True], by('c1', ['&', '<', 'other'], [{'k': 3, 'c1_cells': ['&', '<']}]))),
       thorough=ks(3) + by('dq', [False, True], by('sq', [False, True], by('c1', ['&', '<', '>', '"', "'", 'other'], [{'k': 4}]))),
       timeout=900, canary=[{'k': 1, 'wrong_oracle': True}],
       covers=['html_renderer.py:HtmlRenderer.escape_html_text'],
       note='all strings over Σ of each length k <= N (symbolic code points); both quote options symbolic')
def h1_text(c1: int, c2: int, c3: int, c4: int, dq: bool, sq: bool) -> bool:
    """
    pre: all_ok(cp_ok, P('k'), c1, c2, c3, c4)
    pre: fixed(dq, 'dq') and fixed(sq, 'sq') and first_is(c1)
    post: _
    """
    s = S(P('k'), c1, c2, c3, c4)
    r = _renderer(dq, sq)
    out = r.escape_html_text(s)
    if P('wrong_oracle', False) and '&' in out:
        return False
    if '<' in out or '>' in out:
        return False
    if dq and '"' in out:
        return False
    if sq and "'" in out:
        return False
    return amp_ok(out)


@lemma('H1.text.pointwise', 'C08', quick=ks(2), thorough=ks(2) + by('dq', [False, True], by('sq', [False, True], [{'k': 3}])), timeout=900,
       covers=['html_renderer.py:HtmlRenderer.escape_html_text'],
       note='f(s) equals the concatenation of f(c) over the characters of s: the kernel is a per-character map, which is what carries the single-character result to longer text')
def h1_text_pointwise(c1: int, c2: int, c3: int, c4: int, dq: bool, sq: bool) -> bool:
    """
    pre: all_ok(cp_ok, P('k'), c1, c2, c3, c4)
    pre: fixed(dq, 'dq') and fixed(sq, 'sq')
    post: _
    """
    s = S(P('k'), c1, c2, c3, c4)
    r = _renderer(dq, sq)
    return r.escape_html_text(s) == ''.join([r.escape_html_text(c) for c in s])


@lemma('H1.attr', 'C08', quick=ks(3), thorough=ks(4), timeout=300,
       covers=['html.escape (stdlib, as called for title / language / alt text)'])
def h1_attr(c1: int, c2: int, c3: int, c4: int) -> bool:
    """
    pre: all_ok(cp_ok, P('k'), c1, c2, c3, c4)
    post: _
    """
    out = html.escape(S(P('k'), c1, c2, c3, c4))
    if '<' in out or '>' in out or '"' in out or "'" in out:
        return False
    return amp_ok(out)


URL_OUT = 'ABCDEFGHIJKLMNOPQRSTUVWXYZabcdefghijklmnopqrstuvwxyz0123456789_.-~/#:()*?=%@+,;&'


@lemma('H1.url', 'C08', quick=ks(3), thorough=ks(4), timeout=300,
       stubs=['urllib.parse.quote -> contract stub'],
       covers=['html_renderer.py:HtmlRenderer.escape_url'])
def h1_url(c1: int, c2: int, c3: int, c4: int) -> bool:
    """
    pre: all_ok(cp_ok, P('k'), c1, c2, c3, c4)
    post: _
    """
    install_quote()
    out = HtmlRenderer.escape_url(S(P('k'), c1, c2, c3, c4))
    if '<' in out or '>' in out or '"' in out or "'" in out:
        return False
    if not amp_ok(out):
        return False
    for ch in out:
        if ch not in URL_OUT:
            return False
    return True


# ----------------------------------------------------------------------------- H2 templates

_DIRECT = {}


def mk(cls, **attrs):
    """a token of class `cls` built directly (no parsing) with the given attributes.  The object is an instance of
    a same-named subclass mixed with Duck: reading an attribute the harness did not set (because a constructor
    was extended) makes the path inconclusive instead of raising AttributeError inside the code under test"""
    if cls not in _DIRECT:
        _DIRECT[cls] = type(cls.__name__, (cls, Duck), {'__module__': cls.__module__})
    t = object.__new__(_DIRECT[cls])
    for k, v in attrs.items():
        setattr(t, k, v)
    return t


def raw(text):
    return span_token.RawText(text)


class RenderedInt(Duck):
    """an integer of which the renderer only uses `!= 1` and its decimal rendering"""
    def __init__(self, digits, is_one):
        self.digits, self.is_one = digits, is_one

    def __ne__(self, other):
        return not self.is_one

    def __eq__(self, other):
        return self.is_one

    def __format__(self, spec):
        return self.digits

    def __str__(self):
        return self.digits


def holes(names, N):
    """one job per (attribute that is symbolic, its exact length); the others are concrete"""
    return [{'hole': h, 'k': k} for h in names for k in range(N + 1)]


def hole(name, default, c1, c2, c3):
    """the symbolic string if this attribute is the job's hole, else a benign concrete value"""
    return S(P('k'), c1, c2, c3) if P('hole') == name else default


@lemma('H2.link', 'C08', quick=holes(['target', 'title', 'text'], 2), thorough=holes(['target', 'title', 'text'], 3), timeout=900,
       stubs=['urllib.parse.quote -> contract stub', 'token built directly'],
       covers=['html_renderer.py:HtmlRenderer.render_link', 'html_renderer.py:HtmlRenderer.escape_url'])
def h2_link(c1: int, c2: int, c3: int, dq: bool, sq: bool) -> bool:
    """
    pre: all_ok(cp_ok, P('k'), c1, c2, c3)
    post: _
    """
    install_quote()
    r = _renderer(dq, sq)
    tok = mk(span_token.Link, target=hole('target', '/u', c1, c2, c3), title=hole('title', 't', c1, c2, c3),
             children=[raw(hole('text', 'x', c1, c2, c3))])
    return wf_html(r.render(tok))


@lemma('H2.image', 'C08', quick=holes(['src', 'title', 'alt'], 2), thorough=holes(['src', 'title', 'alt'], 3), timeout=900,
       stubs=['urllib.parse.quote -> contract stub', 'token built directly'],
       covers=['html_renderer.py:HtmlRenderer.render_image', 'html_renderer.py:HtmlRenderer.render_to_plain'])
def h2_image(c1: int, c2: int, c3: int, dq: bool, sq: bool) -> bool:
    """
    pre: all_ok(cp_ok, P('k'), c1, c2, c3)
    post: _
    """
    install_quote()
    r = _renderer(dq, sq)
    tok = mk(span_token.Image, src=hole('src', '/u', c1, c2, c3), title=hole('title', 't', c1, c2, c3),
             children=[mk(span_token.Emphasis, children=[raw(hole('alt', 'x', c1, c2, c3))]),
                       mk(span_token.LineBreak, soft=True, content=''), mk(span_token.InlineCode, children=(raw('c'),))])
    return wf_html(r.render(tok))


def autolink_cp(c):
    """what AutoLink.pattern's URI branch can deliver as target: anything but space, '<', '>'
    (the e-mail branch delivers a subset of it)"""
    return cp_ok(c) and c != 32 and c != 60 and c != 62 and c != 10


def is_mailto(target):
    """AutoLink.__init__: mailto is COMPUTED from the target ('@' present, 'mailto' absent), it is not
    tied to the e-mail branch of the pattern"""
    return '@' in target and 'mailto' not in target.casefold()


@lemma('H2.autolink', 'C08', quick=[{'k': 1, 'at': 0}, {'k': 2, 'at': 0}, {'k': 2, 'at': 1}, {'k': 2, 'at': 2}, {'k': 3, 'at': 1}],
       thorough=[{'k': k, 'at': a} for k in (1, 2, 3, 4) for a in range(0, k + 1)], timeout=900,
       stubs=['urllib.parse.quote -> contract stub', 'token built directly'],
       covers=['html_renderer.py:HtmlRenderer.render_auto_link', 'span_token.py:AutoLink.__init__'],
       note="target of k symbolic code points (no space, '<', '>'), with an '@' forced at position at-1 (at=0: none): the mailto flag is what AutoLink.__init__ computes")
def h2_autolink(c1: int, c2: int, c3: int, c4: int, dq: bool, sq: bool) -> bool:
    """
    pre: all_ok(autolink_cp, P('k'), c1, c2, c3, c4)
    pre: at_sign(P('at'), c1, c2, c3, c4)
    post: _
    """
    install_quote()
    r = _renderer(dq, sq)
    target = S(P('k'), c1, c2, c3, c4)
    mailto = P('at') > 0                       # an '@' is present and 'mailto' needs 6 letters: not in <= 4 characters
    tok = mk(span_token.AutoLink, target=target, mailto=mailto, children=(raw(target),))
    return wf_html(r.render(tok))


def at_sign(at, *cs):
    """partition: position of the (first) '@' in the target, 0 = no '@' at all"""
    k = P('k')
    for i, c in enumerate(cs[:k]):
        if at == 0 and c == 64:
            return False
        if at > 0 and i < at - 1 and c == 64:
            return False
        if at > 0 and i == at - 1 and c != 64:
            return False
    return True


@lemma('H2.code', 'C08', quick=by('fenced', [False, True], holes(['language', 'content'], 1)) + [{'fenced': True, 'hole': 'language', 'k': 2}, {'fenced': True, 'hole': 'content', 'k': 2}], thorough=by('fenced', [False, True], holes(['language', 'content'], 3)), timeout=1800,
       stubs=['tokens built directly'],
       covers=['html_renderer.py:HtmlRenderer.render_inline_code', 'html_renderer.py:HtmlRenderer.render_block_code'])
def h2_code(c1: int, c2: int, c3: int, fenced: bool, dq: bool, sq: bool) -> bool:
    """
    pre: fixed(fenced, 'fenced') and all_ok(cp_ok, P('k'), c1, c2, c3)
    post: _
    """
    r = _renderer(dq, sq)
    content = hole('content', 'x\n', c1, c2, c3)
    ic = mk(span_token.InlineCode, children=(raw(content),))
    if fenced:
        bc = mk(block_token.CodeFence, language=hole('language', 'py', c1, c2, c3), children=(raw(content),))
    else:
        bc = mk(block_token.BlockCode, language='', children=(raw(content),))
    return wf_html(r.render(ic)) and wf_html(r.render(bc))


@lemma('H2.inline', 'C08', quick=by('kind', [0, 1, 2, 3, 4], [{'k': 1}]), thorough=by('kind', [0, 1, 2, 3, 4], [{'k': 1}, {'k': 2}, {'k': 3}]), timeout=1800, stubs=['tokens built directly'],
       covers=['html_renderer.py:HtmlRenderer.render_strong', 'html_renderer.py:HtmlRenderer.render_emphasis',
               'html_renderer.py:HtmlRenderer.render_strikethrough', 'html_renderer.py:HtmlRenderer.render_escape_sequence',
               'html_renderer.py:HtmlRenderer.render_line_break', 'html_renderer.py:HtmlRenderer.render_raw_text'])
def h2_inline(kind: int, c1: int, c2: int, c3: int, soft: bool, dq: bool, sq: bool) -> bool:
    """
    pre: kind == P('kind') and all_ok(cp_ok, P('k'), c1, c2, c3)
    post: _
    """
    r = _renderer(dq, sq)
    text = S(P('k'), c1, c2, c3)
    if kind == 0:
        tok = mk(span_token.Strong, children=[raw(text)])
    elif kind == 1:
        tok = mk(span_token.Emphasis, children=[raw(text)])
    elif kind == 2:
        tok = mk(span_token.Strikethrough, children=[raw(text)])
    elif kind == 3:
        tok = mk(span_token.EscapeSequence, children=(raw(text),))
    else:
        tok = mk(span_token.Emphasis, children=[raw(text), mk(span_token.LineBreak, soft=soft, content=''), raw('y')])
    return wf_html(r.render(tok))


def _para(text):
    return mk(block_token.Paragraph, children=[raw(text)])


def digit_cp(c):
    return 48 <= c <= 57


@lemma('H2.blocks', 'C08', quick=[{'kind': k, 'maxkids': 1} for k in (0, 1, 3, 4, 5)] + [{'kind': 2, 'ordered': False, 'maxkids': 1}, {'kind': 2, 'ordered': True, 'maxkids': 1}],
       thorough=[{'kind': k, 'maxkids': 2, 'timeout': 3000} for k in (0, 1, 3, 4, 5)] + [{'kind': 2, 'ordered': o, 'maxkids': 2, 'loose': l, 'timeout': 3000} for o in (False, True) for l in (False, True)], timeout=600, stubs=['tokens built directly', 'RenderedInt for List.start'],
       covers=['html_renderer.py:HtmlRenderer.render_heading', 'html_renderer.py:HtmlRenderer.render_quote',
               'html_renderer.py:HtmlRenderer.render_paragraph', 'html_renderer.py:HtmlRenderer.render_list',
               'html_renderer.py:HtmlRenderer.render_list_item', 'html_renderer.py:HtmlRenderer.render_thematic_break',
               'html_renderer.py:HtmlRenderer.render_document', 'html_renderer.py:HtmlRenderer.render_table',
               'html_renderer.py:HtmlRenderer.render_table_row', 'html_renderer.py:HtmlRenderer.render_table_cell'])
def h2_blocks(c1: int, level: int, d1: int, d2: int, is_one: bool, ordered: bool, loose: bool, nkids: int,
              align: int, header: bool) -> bool:
    """
    pre: cp_ok(c1) and 1 <= level <= 6 and 0 <= nkids <= P('maxkids', 2) and -1 <= align <= 1
    pre: fixed(ordered, 'ordered') and fixed(loose, 'loose') and digit_cp(d1) and d2 == d1
    post: _
    """
    kind = P('kind')
    r = _renderer(False, False)
    text = chr(c1)
    kids = [_para(text) for _ in range(nkids)]
    if kind == 0:
        tok = mk(block_token.Heading, level=level, children=[raw(text)])
    elif kind == 1:
        tok = mk(block_token.Quote, children=kids)
    elif kind == 2:
        items = [mk(block_token.ListItem, children=list(kids), loose=loose, leader='-', prepend=2, indentation=0),
                 mk(block_token.ListItem, children=[], loose=loose, leader='-', prepend=2, indentation=0)]
        tok = mk(block_token.List, children=items, loose=loose,
                 start=RenderedInt(chr(d1) + chr(d2), is_one) if ordered else None)
    elif kind == 3:
        tok = mk(block_token.Document, children=kids + [mk(block_token.ThematicBreak, line='---')], footnotes={})
    elif kind == 4:
        al = None if align < 0 else align
        cell = mk(block_token.TableCell, align=al, children=[raw(text)])
        row = mk(block_token.TableRow, row_align=[al], children=[cell])
        tok = mk(block_token.Table, column_align=[al], children=[row] * nkids)
        if header:
            tok.header = row
        else:
            tok._absent_ = ('header',)       # Table.__init__ sets .header only when there is a delimiter row
    else:
        both = [_para(text), mk(block_token.Quote, children=[_para(text)])]
        item = mk(block_token.ListItem, children=[both[i] for i in range(nkids)],
                  loose=loose, leader='-', prepend=2, indentation=0)
        tok = mk(block_token.List, children=[item], loose=loose, start=None)
    out = r.render(tok)
    return wf_html(out) and r._suppress_ptag_stack == [False]


# -------------------------------------------------------------- H3 whole pipeline, tiny documents

def strip_raw_html(doc, out):
    """set aside the verbatim content of raw HTML blocks and spans (process_html_tokens=True):
    returns the output with each HtmlBlock/HtmlSpan content removed once, or None"""
    from mistletoe.utils import traverse
    for res in traverse(doc):
        t = res.node
        if type(t).__name__ in ('HtmlBlock', 'HtmlSpan'):
            c = t.content
            i = out.find(c)
            if i < 0:
                return None
            out = out[:i] + out[i + len(c):]
    return out


H3_ALPH = ALPH14 + '<&"'


@lemma('H3.pipeline.sigma', 'C08', quick=[{'k': 1, 'html': False}, {'k': 1, 'html': True}],
       thorough=[{'k': k, 'html': h, 'timeout': 3000} for k in (1, 2) for h in (False, True)], timeout=400, per_path=60,
       stubs=['urllib.parse.quote -> contract stub'],
       covers=['block_token.py:Document.__init__', 'html_renderer.py:HtmlRenderer.render_document'],
       note='whole parse-and-render on every document of k characters over Σ')
def h3_sigma(c1: int, c2: int, dq: bool, sq: bool) -> bool:
    """
    pre: all_ok(cp_ok, P('k'), c1, c2)
    post: _
    """
    return _h3(S(P('k'), c1, c2), dq, sq, P('html'))


@lemma('H3.pipeline.alph', 'C08', quick=by('c1', list('<&"[`'), [{'k': 2, 'html': False, 'dq': False, 'sq': False}]) + by('c1', list('<&'), [{'k': 2, 'html': True, 'dq': False, 'sq': False}]),
       thorough=by('c1', list(H3_ALPH), [{'k': 2, 'html': False}, {'k': 2, 'html': True}, {'k': 3, 'html': False, 'dq': True, 'sq': False, 'timeout': 3000}, {'k': 3, 'html': True, 'dq': False, 'sq': True, 'timeout': 3000}]),
       timeout=600, per_path=60, stubs=['urllib.parse.quote -> contract stub'],
       covers=['block_token.py:Document.__init__', 'html_renderer.py:HtmlRenderer.render_document'],
       note='whole parse-and-render on every document of k characters over the 17 Markdown/HTML-significant characters')
def h3_alph(c1: int, c2: int, c3: int, dq: bool, sq: bool) -> bool:
    """
    pre: all_in(H3_ALPH, P('k'), c1, c2, c3)
    pre: fixed(c1, 'c1') and fixed(dq, 'dq') and fixed(sq, 'sq')
    post: _
    """
    return _h3(S(P('k'), c1, c2, c3), dq, sq, P('html'))


def _h3(s, dq, sq, process_html):
    from mistletoe import Document
    install_quote()
    with HtmlRenderer(html_escape_double_quotes=dq, html_escape_single_quotes=sq,
                      process_html_tokens=process_html) as r:
        doc = Document(s)
        out = r.render(doc)
    if process_html:
        out = strip_raw_html(doc, out)
        if out is None:
            return False
    return wf_html(out)


# ------------------------------------------------------------------ recorded findings / witnesses

def witness_image_src():
    """(fixed) image source written unescaped: ![a](x"onerror="alert(1)) closed the src attribute"""
    import mistletoe
    out = mistletoe.markdown('![a](x"onerror="alert(1))')
    return (not wf_html(out)) or 'onerror="' in out, 'markdown(\'![a](x"onerror="alert(1))\') = %r' % out


def witness_mailto_unescaped():
    """(fixed) the mailto branch of render_auto_link wrote the target unescaped: <http://a@b"x> closed the href"""
    import mistletoe
    out = mistletoe.markdown('<http://a@b"x>')
    return not wf_html(out), "markdown('<http://a@b\"x>') = %r" % out


# ---------------------------------------------------------------------------------------- H4
# HtmlRenderer on REAL tokens with one symbolic attribute (see C01-T4)

H4_HOLES = ['text', 'heading-text', 'item-text', 'cell-text', 'quote-text', 'emphasis-text', 'fence-language', 'fence-content', 'indented-content', 'code-span',
            'link-target', 'link-title', 'image-src', 'image-title', 'autolink']


def h4_deliverable(c1, c2, c3):
    from vfy.lemmas.c01 import T4_HOLES
    return T4_HOLES[P('hole')][3](S(P('k'), c1, c2, c3))


def h4_replay(c1, c2, c3, dq, sq):
    from mistletoe import Document
    from mistletoe.html_renderer import HtmlRenderer
    from vfy.lemmas.c01 import T4_HOLES
    w = S(P('k'), c1, c2, c3)
    skeleton, path, setter, deliverable, texts = T4_HOLES[P('hole')]
    if not deliverable(w):
        return False, 'pre-condition false for %r' % w
    kw = {'html_escape_double_quotes': dq, 'html_escape_single_quotes': sq, 'process_html_tokens': False}
    seen = []
    for text in texts(w):
        with HtmlRenderer(**kw) as r:
            out = r.render(Document(text))
        if not wf_html(out):
            return True, 'HtmlRenderer(**%r).render(Document(%r)) = %r: not well-formed / markup injected' % (kw, text, out)
        seen.append((text, out))
    return False, 'no text delivering %r breaks the output: %r' % (w, seen)


@lemma('H4.render-attrs', 'C08', quick=[{'hole': h, 'k': 2} for h in H4_HOLES], thorough=[{'hole': h, 'k': k} for h in H4_HOLES for k in (0, 1, 2)] + [{'hole': h, 'k': 3, 'timeout': 3000} for h in H4_HOLES],
       timeout=600, per_path=60, replay=h4_replay,
       stubs=['urllib.parse.quote -> contract stub', 'concrete skeleton parsed natively, one attribute replaced by the symbolic string'],
       covers=['html_renderer.py:HtmlRenderer.render_document', 'html_renderer.py:HtmlRenderer.render_table_cell', 'html_renderer.py:HtmlRenderer.render_list_item',
               'html_renderer.py:HtmlRenderer.render_block_code', 'html_renderer.py:HtmlRenderer.render_image'],
       note='every string attribute HtmlRenderer reads takes any k-character value the parser can deliver for it, quote options symbolic, raw HTML off: '
            'the output is well-formed and the value appears only as escaped text / attribute value; counterexamples replayed through Document(text) only')
def h4_render_attrs(c1: int, c2: int, c3: int, dq: bool, sq: bool) -> bool:
    """
    pre: all_ok(cp_md, P('k'), c1, c2, c3) and h4_deliverable(c1, c2, c3)
    post: _
    """
    from mistletoe import Document
    from mistletoe.html_renderer import HtmlRenderer
    from vfy.lemma import untraced
    from vfy.lemmas.c01 import T4_HOLES
    from vfy.lemmas.common import cp_md
    install_quote()
    w = S(P('k'), c1, c2, c3)
    skeleton, path, setter, deliverable, texts = T4_HOLES[P('hole')]
    with HtmlRenderer(html_escape_double_quotes=dq, html_escape_single_quotes=sq, process_html_tokens=False) as r:
        with untraced():
            doc = Document(skeleton)
        t = doc
        for i in path:
            t = t.children[i]
        setter(t, w)
        out = r.render(doc)
    return wf_html(out)
