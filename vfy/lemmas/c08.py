"""C08 -- HTML output is well-formed; document text cannot inject markup."""
import html
from urllib.parse import quote
from vfy.lemma import lemma, P
from mistletoe.html_renderer import HtmlRenderer

SAFE_URL = set("ABCDEFGHIJKLMNOPQRSTUVWXYZabcdefghijklmnopqrstuvwxyz0123456789_.-~" + '/#:()*?=%@+,&;')
ENTITIES = ('&amp;', '&lt;', '&gt;', '&quot;', '&#x27;')


def amp_ok(out):
    """every '&' starts one of the five entities"""
    i = out.find('&')
    while i != -1:
        if not out.startswith(ENTITIES, i):
            return False
        i = out.find('&', i + 1)
    return True


def text_kernel_ok(s, out, dq, sq):
    if '<' in out or '>' in out:
        return False
    if dq and '"' in out:
        return False
    if sq and "'" in out:
        return False
    return amp_ok(out)


@lemma('H1.text', 'C08', quick=[{'N': 3}], thorough=[{'N': 4, 'timeout': 900}], timeout=240,
       covers=['html_renderer.py:HtmlRenderer.escape_html_text'])
def h1_text(s: str, dq: bool, sq: bool) -> bool:
    """
    pre: len(s) <= P('N')
    post: _
    """
    r = HtmlRenderer.__new__(HtmlRenderer)
    r.html_escape_double_quotes = dq
    r.html_escape_single_quotes = sq
    out = r.escape_html_text(s)
    return text_kernel_ok(s, out, dq, sq)


@lemma('H1.text.hom', 'C08', quick=[{'N': 2}], thorough=[{'N': 2}], timeout=240,
       covers=['html_renderer.py:HtmlRenderer.escape_html_text'],
       note='homomorphism f(a+b)=f(a)+f(b): extends the single-character result to any length')
def h1_text_hom(a: str, b: str, dq: bool, sq: bool) -> bool:
    """
    pre: len(a) <= P('N') and len(b) <= P('N')
    post: _
    """
    r = HtmlRenderer.__new__(HtmlRenderer)
    r.html_escape_double_quotes = dq
    r.html_escape_single_quotes = sq
    return r.escape_html_text(a + b) == r.escape_html_text(a) + r.escape_html_text(b)
