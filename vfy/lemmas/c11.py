"""C11 -- results depend only on input and renderer, never on earlier library use.

Histories are not enumerated.  The inductive step is used instead: from an ARBITRARY prior
state (every piece of parser scratch state symbolic; or: the state left behind by a parse that
raised at a symbolic fault point), the observational invariant holds:
  (i)  both active token lists equal their defaults once the renderer context has exited,
  (ii) every probe document renders, under every bundled renderer, to its fresh-interpreter
       baseline (computed concretely in a separate plain interpreter at start of the job).
"""
import json
import os
import subprocess
from vfy.lemma import lemma, P, untraced
import vfy.lemma as L
from vfy.lemmas.common import S, SC, cp_ok, all_ok, all_in

ASSUMPTIONS = ['C11: Inv is observational (token lists + probe-document outputs), not a statement about internal variables',
               'Pygments highlight/lexers are third-party: the Pygments renderer is driven on probe documents without code blocks']
OUTSIDE = ['concurrent use', 'histories that leave a renderer context un-exited', 'faults inside render methods (the property speaks of parses that raise)']

# probe documents: together they are sensitive to every piece of global parser state
PROBES = [
    '# h\n\n## ##\n\n# #\n\n### x ##\n',           # Heading.level/content/closing_sequence (incl. closing-sequence-only headings)
    '```py\nx\n```\n',                         # CodeFence._open_info
    '<!-- c\n-->\n\n<div>\nx\n',               # HtmlBlock._end_cond
    'para\n===\n',                             # Paragraph.parse_setext
    'hello world\n',                           # core_tokens._code_matches (a leaked code span shows here)
    'a `code` b &amp; &copy;\n',               # code spans, html._charref
    'x\n|a|\n|-|\n',                           # Table.interrupt_paragraph
    '> q\n> ===\n\n- i\n\n  j\n',              # containers
    '[l]: /u "t"\n\n[l] *e* **s** ~~d~~\n',    # token._root_node / footnotes
    'p\n<div>\nq\n\n- i\n<!-- c -->\n\n> r\n<?php ?>\n',   # which token types may interrupt a paragraph / item / quote
]
NOCODE = [p for p in PROBES if '```' not in p]
# ONE document holding every probe (the paragraph without code spans first: a leaked code-span match shows
# in the first inline parse): G2/G3 render this single document instead of ten separate ones
COMBINED = 'hello world\n\n' + '\n'.join(p for p in PROBES if p != 'hello world\n')
COMBINED_NOCODE = 'hello world\n\n' + '\n'.join(p for p in NOCODE if p != 'hello world\n')


def renderers():
    from mistletoe.html_renderer import HtmlRenderer
    from mistletoe.markdown_renderer import MarkdownRenderer
    from mistletoe.latex_renderer import LaTeXRenderer
    from mistletoe.ast_renderer import AstRenderer
    from mistletoe.contrib.toc_renderer import TocRenderer
    from mistletoe.contrib.github_wiki import GithubWikiRenderer
    from mistletoe.contrib.mathjax import MathJaxRenderer
    from mistletoe.contrib.jira_renderer import JiraRenderer
    from mistletoe.contrib.xwiki20_renderer import XWiki20Renderer
    rs = [('Html', HtmlRenderer, {}), ('HtmlNoRaw', HtmlRenderer, {'process_html_tokens': False}),
          ('Markdown', MarkdownRenderer, {}), ('MarkdownWrap', MarkdownRenderer, {'max_line_length': 10}),
          ('LaTeX', LaTeXRenderer, {}), ('Ast', AstRenderer, {}), ('Toc', TocRenderer, {}),
          ('GithubWiki', GithubWikiRenderer, {}), ('MathJax', MathJaxRenderer, {}), ('Jira', JiraRenderer, {}),
          ('XWiki20', XWiki20Renderer, {})]
    try:
        from mistletoe.contrib.pygments_renderer import PygmentsRenderer
        rs.append(('Pygments', PygmentsRenderer, {}))
    except Exception:
        pass
    return rs


def render_all(only=None, combined=False):
    """{renderer name: [output per probe]} plus the AST of a bare Document with no renderer active"""
    from mistletoe import Document
    from mistletoe.ast_renderer import get_ast
    out = {}
    for name, cls, kw in renderers():
        if only is not None and name not in only:
            continue
        docs = NOCODE if name == 'Pygments' else PROBES
        if combined:
            docs = [COMBINED_NOCODE if name == 'Pygments' else COMBINED]
        res = []
        for d in docs:
            try:
                with cls(**kw) as r:
                    res.append(r.render(Document(d)))
            except Exception as e:      # a renderer that refuses a probe: recorded as such, must be stable
                res.append('EXC ' + type(e).__name__)
        out[name] = res
    if only is None or 'bare-ast' in only:
        out['bare-ast'] = [json.dumps(get_ast(Document(d)), sort_keys=True) for d in ([COMBINED] if combined else PROBES)]
    return out


_BASELINE = {}


def render_single(name, which):
    """ONE render in this process: renderer `name` (or 'bare-ast') on probe number `which` ('comb' = the combined document)"""
    from mistletoe import Document
    from mistletoe.ast_renderer import get_ast
    if name == 'bare-ast':
        d = COMBINED if which == 'comb' else PROBES[which]
        return json.dumps(get_ast(Document(d)), sort_keys=True)
    for n, cls, kw in renderers():
        if n == name:
            docs = NOCODE if name == 'Pygments' else PROBES
            d = (COMBINED_NOCODE if name == 'Pygments' else COMBINED) if which == 'comb' else docs[which]
            try:
                with cls(**kw) as r:
                    return r.render(Document(d))
            except Exception as e:
                return 'EXC ' + type(e).__name__
    return None


def baseline():
    """every (renderer, probe) output computed in its OWN fresh plain interpreter: no history at all, not even the
    other probes.  Cached on disk under a key made of the source of the tree under test (the baseline only depends on it)."""
    if 'b' in _BASELINE:
        return _BASELINE['b']
    import hashlib
    import glob
    from concurrent.futures import ThreadPoolExecutor
    h = hashlib.sha256()
    for f in sorted(glob.glob(L.REPO + '/mistletoe/**/*.py', recursive=True)):
        h.update(open(f, 'rb').read())
    h.update(repr(PROBES).encode())
    cdir = '/verif/.cache'
    os.makedirs(cdir, exist_ok=True)
    path = os.path.join(cdir, 'c11-baseline-%s.json' % h.hexdigest()[:24])
    if os.path.exists(path):
        try:
            _BASELINE['b'] = json.load(open(path))
            return _BASELINE['b']
        except ValueError:
            pass
    names = [n for n, _, _ in renderers()] + ['bare-ast']
    env = dict(os.environ, PYTHONPATH='/verif:' + L.REPO, PYTHONHASHSEED='0')
    jobs = []
    for n in names:
        ndocs = len(NOCODE) if n == 'Pygments' else len(PROBES)
        for which in list(range(ndocs)) + ['comb']:
            jobs.append((n, which))

    def one(job):
        n, which = job
        code = 'import json; import vfy.lemmas.c11 as c; print("BASE " + json.dumps(c.render_single(%r, %r)))' % (n, which)
        out = subprocess.run(['/venv/bin/python', '-c', code], capture_output=True, text=True, env=env, timeout=300).stdout
        return job, json.loads(out.split('BASE ', 1)[1])
    with ThreadPoolExecutor(8) as ex:
        res = dict(ex.map(one, jobs))
    base = {'sep': {}, 'comb': {}}
    for n in names:
        ndocs = len(NOCODE) if n == 'Pygments' else len(PROBES)
        base['sep'][n] = [res[(n, i)] for i in range(ndocs)]
        base['comb'][n] = [res[(n, 'comb')]]
    tmp = path + '.%d' % os.getpid()
    json.dump(base, open(tmp, 'w'))
    os.replace(tmp, path)
    _BASELINE['b'] = base
    return base


def prepare():
    """called once by the driver before the jobs start (fills the baseline caches)"""
    baseline()
    role_baseline()


def token_lists_default():
    from mistletoe import block_token, span_token
    return (block_token._token_types == [getattr(block_token, n) for n in block_token.__all__]
            and span_token._token_types == [getattr(span_token, n) for n in span_token.__all__])


FAST = ('Html', 'Markdown', 'bare-ast')       # one renderer per distinct token set family


def same_as_baseline(only=None, combined=True):
    got = render_all(only, combined)
    base = baseline()['comb' if combined else 'sep']
    for k, v in got.items():
        if base.get(k) != v:
            return False
    return True


def repair_state():
    """put the process back into its fresh state so that the next explored path starts clean
    (the harness's own hygiene: CrossHair re-runs the lemma in the same process)"""
    from vfy.lemmas.common import reset_parser_state
    reset_parser_state()


# ------------------------------------------------------------------------------------------ G1

@lemma('G1.scratch', 'C11', quick=[{'group': g} for g in range(4)], timeout=400, per_path=120,
       covers=['block_token.py:Heading.start', 'block_token.py:CodeFence.start', 'block_token.py:HtmlBlock.start'],
       note='every scratch attribute (Heading.level/content/closing_sequence, CodeFence._open_info, HtmlBlock._end_cond) is an '
            'arbitrary symbolic value of its type before the probe set is rendered under every bundled renderer')
def g1_scratch(level: int, c1: int, oi0: int, endnone: bool) -> bool:
    """
    pre: cp_ok(c1)
    post: _
    """
    c2 = c3 = c1
    from mistletoe import block_token as bt
    base = baseline()
    bt.Heading.level = level
    bt.Heading.content = chr(c1) + chr(c2)
    bt.Heading.closing_sequence = chr(c3)
    bt.CodeFence._open_info = (oi0, chr(c1), chr(c2) + chr(c3), chr(c3))
    bt.HtmlBlock._end_cond = None if endnone else chr(c2) + chr(c1)
    names = [n for n, _, _ in renderers()] + ['bare-ast']
    mine = [n for i, n in enumerate(names) if i % 4 == P('group')]
    try:
        return same_as_baseline(mine, combined=True)
    finally:
        bt.Heading.level = 0
        bt.Heading.content = ''
        bt.CodeFence._open_info = None
        bt.HtmlBlock._end_cond = None


# ------------------------------------------------------------------------------------------ G2

@lemma('G2.restoration', 'C11', quick=[{'ri': i} for i in range(12)], timeout=600, per_path=120,
       covers=['base_renderer.py:BaseRenderer.__exit__', 'markdown_renderer.py:MarkdownRenderer.__init__',
               'block_token.py:reset_tokens', 'span_token.py:reset_tokens'],
       note='one job per bundled renderer: it renders the combined probe document, an extra custom token is optionally passed, user code optionally raises inside the with-block; '
            'after the context exits both token lists equal the defaults and Inv holds')
def g2_restoration(ri: int, extra: bool, raise_inside: bool) -> bool:
    """
    pre: ri == P('ri')
    post: _
    """
    from mistletoe import Document, span_token
    rs = renderers()
    if ri >= len(rs):
        return True
    name, cls, kw = rs[ri]
    doc = COMBINED_NOCODE if name == 'Pygments' else COMBINED
    base = baseline()

    class Extra(span_token.SpanToken):
        pattern = __import__('re').compile(r'@@(\w+)@@')
    args = ()
    if extra and name not in ('GithubWiki', 'MathJax', 'Ast'):
        args = (Extra,)
        cls = type('WithExtra', (cls,), {'render_extra': lambda self, t: ''})
    try:
        with cls(*args, **kw) as r:
            r.render(Document(doc))
            if raise_inside:
                raise KeyError('user code')
    except KeyError:
        pass
    with untraced():        # everything is concrete here: the renderer index and the flags have been decided on this path
        ok = token_lists_default() and same_as_baseline(FAST)
        repair_state()
    return ok


# ------------------------------------------------------------------------------------------ G3

class Boom(Exception):
    pass


FAULT_DOC = 'a `code` b\n\n> q `c2`\n> x\n\n- i `c3`\n\nz `y`\n'


@lemma('G3.faults', 'C11', quick=[{'kind': k, 'p': p} for k in ('span', 'block') for p in range(10)] + [{'kind': 'span-init', 'p': 1}, {'kind': 'span-init', 'p': 5}, {'kind': 'block-read', 'p': 0}, {'kind': 'block-read', 'p': 3}],
       thorough=[{'kind': k, 'p': p} for k in ('span', 'block', 'span-init', 'block-read') for p in range(10)],
       timeout=900, per_path=200,
       covers=['span_tokenizer.py:tokenize', 'core_tokens.py:find_core_tokens', 'span_token.py:InlineCode.find',
               'block_token.py:Quote.read', 'base_renderer.py:BaseRenderer.__exit__'],
       note='a custom token inserted at symbolic list position p raises on its c-th call (c in 1..8): the crash point is '
            '(hook, c, p); afterwards Inv must hold')
def g3_faults(c: int, p: int) -> bool:
    """
    pre: 1 <= c <= 8 and p == P('p')
    post: _
    """
    from mistletoe import Document, block_token as bt, span_token
    from mistletoe.html_renderer import HtmlRenderer
    kind = P('kind')
    base = baseline()
    calls = [0]

    def tick():
        calls[0] += 1
        if calls[0] == c:
            raise Boom()

    class BadSpan(span_token.SpanToken):
        precedence = 6
        pattern = __import__('re').compile(r'z')
        parse_inner = False
        parse_group = 0

        def __init__(self, match):
            if kind == 'span-init':
                tick()
            self.content = 'z'

        @classmethod
        def find(cls, string):
            if kind == 'span':
                tick()
            return cls.pattern.finditer(string)

    class BadBlock(bt.BlockToken):
        def __init__(self, lines):
            self.children = []

        @classmethod
        def start(cls, line):
            if kind == 'block':
                tick()
            return kind == 'block-read' and line.startswith('x')

        @classmethod
        def read(cls, lines):
            tick()
            return [next(lines)]

    is_span = kind.startswith('span')
    custom = BadSpan if is_span else BadBlock

    class R(HtmlRenderer):
        def __init__(self):
            super().__init__()
            # the documented way to choose a position: add_token(cls, position)
            mod = span_token if is_span else bt
            lst = mod._token_types
            if p > len(lst) - (1 if is_span else 0):
                raise Skip()
            mod.add_token(custom, p)
            self.render_map[custom.__name__] = lambda t: ''
    try:
        with R() as r:
            r.render(Document(FAULT_DOC))
    except Boom:
        pass
    except Skip:
        repair_state()
        return True
    with untraced():        # the crash point (c, p) has been decided on this path; the probe documents are concrete
        ok = token_lists_default() and same_as_baseline(FAST)
        repair_state()
    return ok


class Skip(Exception):
    pass



# ------------------------------------------------------------------------------------------ G3r

# the custom token `z` in every rendering context that keeps renderer-side state while its children are rendered:
# top-level paragraph, quote, tight list (bullet), emphasis inside a tight item, loose ordered item, heading, table
# header and body cell, link text, strong
RENDER_FAULT_DOC = 'z\n\n> z\n\n- z\n- a *z*\n\n1. z\n\n   z\n\n# z\n\n|z|\n|-|\n|z|\n\n[z](u) **z**\n'
G3R_RENDERERS = ('Html', 'Toc', 'LaTeX', 'Markdown', 'MarkdownWrap', 'Jira', 'XWiki20')


@lemma('G3r.render-faults', 'C11', quick=[{'r': r} for r in G3R_RENDERERS], timeout=900, per_path=200,
       covers=['base_renderer.py:BaseRenderer.render', 'base_renderer.py:BaseRenderer.render_inner', 'base_renderer.py:BaseRenderer.__exit__',
               'html_renderer.py:HtmlRenderer.render_list', 'html_renderer.py:HtmlRenderer.render_list_item',
               'markdown_renderer.py:MarkdownRenderer.render', 'latex_renderer.py:LaTeXRenderer.render_document'],
       note='the fault is raised by the RENDER function of a custom span token on its c-th call (c in 1..12, symbolic; the token stands '
            'in a paragraph, quote, tight and loose list items, emphasis, heading, table cells, link text): whatever the renderer had '
            'pushed at that moment, afterwards the token lists are the defaults and every probe renders as in a fresh interpreter')
def g3r_render_faults(c: int) -> bool:
    """
    pre: 1 <= c <= 12
    post: _
    """
    from mistletoe import Document, span_token
    rname = P('r')
    cls, kw = [(k, w) for n, k, w in renderers() if n == rname][0]
    calls = [0]

    class BadSpan(span_token.SpanToken):
        precedence = 6
        pattern = __import__('re').compile(r'z')
        parse_inner = False
        parse_group = 0

        def __init__(self, match):
            self.content = 'z'

    class R(cls):
        def __init__(self):
            super().__init__(BadSpan, **kw)
            self.render_map['BadSpan'] = self.render_bad_span

        def render_bad_span(self, token):
            calls[0] += 1
            if calls[0] == c:
                raise Boom()
            return super().render_raw_text(token)

    reached = False
    try:
        with R() as r:
            r.render(Document(RENDER_FAULT_DOC))
    except Boom:
        reached = True
    with untraced():
        ok = token_lists_default() and same_as_baseline(None)
        repair_state()
    if not reached and c <= 6:
        # vacuity guard: every renderer calls the token's render function at least six times on this document
        return False
    return ok


# ------------------------------------------------------------------------------------------ witnesses

def _after_fault(kind, c, p):
    import vfy.lemma as LL
    LL.PARAMS = dict(LL.PARAMS, kind=kind)
    return not g3_faults(c, p)


def witness_code_matches_leak():
    """(fixed) an exception between CoreTokens.find and InlineCode.find left the code-span matches
    behind: the next document rendered with a code span taken from the previous one"""
    fails = _after_fault('span', 1, 4)
    return fails, 'custom span token at position 4 (between CoreTokens and InlineCode) raising on its first find(): Inv %s afterwards' % ('violated' if fails else 'holds')


def witness_parse_setext_leak():
    """(fixed) an exception inside Quote.read left Paragraph.parse_setext switched off"""
    fails = _after_fault('block', 4, 0)
    return fails, 'custom block token raising on its 4th start() (inside a quote): Inv %s afterwards' % ('violated' if fails else 'holds')


# ------------------------------------------------------------------------------------------ G1b

SCRATCH_READERS = ['Heading', 'CodeFence', 'HtmlBlock']
HTML_ALPH = '!-?[/> padC'          # HtmlBlock.start runs several regexes and casefold() (C-level): finite alphabet of the characters its rules look at, solver-enumerated


def no_nl(k, *cps):
    for c in cps[:k]:
        if c == 10:
            return False
    return True


def _freeze(x):
    if isinstance(x, (list, tuple)):
        return tuple(_freeze(e) for e in x)
    return x


@lemma('G1b.reader-scratch', 'C11', quick=[{'reader': r, 'k': k} for r in SCRATCH_READERS for k in (1, 2)] + [{'reader': 'Heading', 'k': 3}],
       thorough=[{'reader': r, 'k': k} for r in SCRATCH_READERS for k in (1, 2, 3)] + [{'reader': 'Heading', 'k': 4}], timeout=600, per_path=60,
       covers=['block_token.py:Heading.start', 'block_token.py:Heading.read', 'block_token.py:CodeFence.start', 'block_token.py:CodeFence.read',
               'block_token.py:HtmlBlock.start', 'block_token.py:HtmlBlock.read'],
       note="for every reader that keeps class-level scratch state: a symbolic first line (a fixed prefix that makes the reader's start() plausible + k symbolic code points over Σ) read once from an ARBITRARY symbolic scratch state and once from the fresh state gives the same start() verdict, read() result and cursor")
def g1b_reader_scratch(c1: int, c2: int, c3: int, c4: int, level: int, s1: int, s2: int, oi0: int, endnone: bool) -> bool:
    """
    pre: (all_in(HTML_ALPH, P('k'), c1, c2, c3, c4) if P('reader') == 'HtmlBlock' else all_ok(cp_ok, P('k'), c1, c2, c3, c4)) and no_nl(P('k'), c1, c2, c3, c4)
    pre: cp_ok(s1) and cp_ok(s2)
    post: _
    """
    return reader_scratch_body(c1, c2, c3, c4, level, s1, s2, oi0, endnone)


def reader_scratch_body(c1, c2, c3, c4, level, s1, s2, oi0, endnone):
    # plain helper without a contract (shared with C05-F4): CrossHair enforces the contracts of contracted
    # callees and silently ignores paths on which a callee's post-condition fails
    from mistletoe import block_token as bt, block_tokenizer as btk
    name = P('reader')
    T = getattr(bt, name)
    prefix = {'Heading': '#', 'CodeFence': '```', 'HtmlBlock': '<'}[name]
    hole = SC(P('k'), HTML_ALPH, c1, c2, c3, c4) if name == 'HtmlBlock' else S(P('k'), c1, c2, c3, c4)
    line = prefix + hole + '\n'
    rest = ['x\n', '```\n', '-->\n', '\n', 'y\n']

    def run():
        fw = btk.FileWrapper([line] + rest)
        ok = T.start(line)
        if not ok:
            return (False, None, fw._index)
        return (ok if isinstance(ok, bool) else int(ok) if isinstance(ok, int) else True, _freeze(T.read(fw)), fw._index)
    fresh = {'level': 0, 'content': '', 'closing_sequence': getattr(bt.Heading, 'closing_sequence', ''),
             '_open_info': None, '_end_cond': None}
    bt.Heading.level, bt.Heading.content, bt.Heading.closing_sequence = level, chr(s1) + chr(s2), chr(s2)
    bt.CodeFence._open_info = (oi0, chr(s1) * 3, chr(s2), chr(s1))
    bt.HtmlBlock._end_cond = None if endnone else chr(s1) + chr(s2)
    try:
        a = run()
    finally:
        bt.Heading.level, bt.Heading.content, bt.Heading.closing_sequence = fresh['level'], fresh['content'], fresh['closing_sequence']
        bt.CodeFence._open_info = fresh['_open_info']
        bt.HtmlBlock._end_cond = fresh['_end_cond']
    b = run()
    bt.Heading.level, bt.Heading.content = 0, ''
    bt.CodeFence._open_info = None
    bt.HtmlBlock._end_cond = None
    return a == b


# ------------------------------------------------------------------------------------------ replays

def _twice(fn):
    """C11 is about histories: CrossHair runs a lemma many times in one process, so a failing path may depend on
    what the previous iteration left behind.  The concrete replay therefore runs the lemma TWICE in one fresh
    process (history: the same call once before) and reports a violation if either run fails."""
    def rp(*args):
        r1 = fn(*args)
        r2 = fn(*args)
        return (not (r1 and r2)), 'first run in a fresh process: %s; same call again in the same process: %s' % (r1, r2)
    return rp


g1_scratch.__lemma__.replay = _twice(g1_scratch)
g2_restoration.__lemma__.replay = _twice(g2_restoration)
g3_faults.__lemma__.replay = _twice(g3_faults)


# ------------------------------------------------------------------------------------------ G4
# Histories as the symbolic variable: the same strings in different syntactic roles (block phase / inline phase),
# rendered one document after another in ONE fresh interpreter; which documents and in which order is chosen by the solver.

ROLE_PROBES = [
    '```&lt\nx\n```\n',                    # fence info string (block phase)
    '[b](&lt)\n',                          # inline destination (inline phase)
    '[r]: &lt "&copy"\n\n[r]\n',           # definition destination and title (block phase)
    '[c](/u "&copy")\n',                   # inline title
    '`&lt` &lt &copy\n',                   # code span and running text
    '\\*a\\* \\&lt\n',                     # backslash escapes in running text
    '[d](\\*a "\\*a")\n',                  # backslash escapes in an inline destination / title
    '```\\*a\nx\n```\n\n[s]: \\*a\n\n[s]\n',   # backslash escapes in a fence info string and a definition
]
G4_RENDERERS = ('Html', 'Markdown', 'LaTeX')


def run_history(rname, seq):
    """the documents ROLE_PROBES[i] for i in seq, rendered one after another under renderer `rname` in ONE fresh plain interpreter"""
    code = ('import json; import vfy.lemmas.c11 as c; from mistletoe import Document\n'
            'cls, kw = [(k, w) for n, k, w in c.renderers() if n == %r][0]\n'
            'outs = []\n'
            'for i in %r:\n'
            '    try:\n'
            '        with cls(**kw) as r:\n'
            '            outs.append(r.render(Document(c.ROLE_PROBES[i])))\n'
            '    except Exception as e:\n'
            '        outs.append("EXC " + type(e).__name__)\n'
            'print("HIST " + json.dumps(outs))\n' % (rname, list(seq)))
    env = dict(os.environ, PYTHONPATH='/verif:' + L.REPO, PYTHONHASHSEED='0')
    out = subprocess.run(['/venv/bin/python', '-c', code], capture_output=True, text=True, env=env, timeout=300)
    if 'HIST ' not in out.stdout:
        raise L.HarnessLimit('history run gave no result: ' + out.stderr[-300:])
    return json.loads(out.stdout.split('HIST ', 1)[1])


_ROLE_BASE = {}


def role_baseline():
    """ROLE_PROBES[i] under each renderer of G4_RENDERERS, each in its own fresh interpreter (cached on disk by the tree's sources)"""
    if 'b' in _ROLE_BASE:
        return _ROLE_BASE['b']
    import hashlib
    import glob
    from concurrent.futures import ThreadPoolExecutor
    h = hashlib.sha256()
    for f in sorted(glob.glob(L.REPO + '/mistletoe/**/*.py', recursive=True)):
        h.update(open(f, 'rb').read())
    h.update(repr((ROLE_PROBES, G4_RENDERERS)).encode())
    path = os.path.join('/verif/.cache', 'c11-roles-%s.json' % h.hexdigest()[:24])
    os.makedirs('/verif/.cache', exist_ok=True)
    if os.path.exists(path):
        try:
            _ROLE_BASE['b'] = json.load(open(path))
            return _ROLE_BASE['b']
        except ValueError:
            pass
    jobs = [(r, i) for r in G4_RENDERERS for i in range(len(ROLE_PROBES))]
    with ThreadPoolExecutor(8) as ex:
        res = list(ex.map(lambda j: run_history(j[0], [j[1]])[0], jobs))
    base = {r: [None] * len(ROLE_PROBES) for r in G4_RENDERERS}
    for (r, i), o in zip(jobs, res):
        base[r][i] = o
    tmp = path + '.%d' % os.getpid()
    json.dump(base, open(tmp, 'w'))
    os.replace(tmp, path)
    _ROLE_BASE['b'] = base
    return base


def _pick(x, n):
    """the solver picks each member of the finite domain 0..n-1 (one path per value)"""
    for v in range(n):
        if x == v:
            return v
    return None


def g4_replay(i1, i2, i3):
    n = P('n')
    seq = [i1, i2, i3][:n]
    if not all(0 <= i < len(ROLE_PROBES) for i in seq):
        return False, 'pre-condition false'
    outs = run_history(P('r'), seq)
    base = role_baseline()[P('r')]
    for j, i in enumerate(seq):
        if outs[j] != base[i]:
            return True, ('%s renderer, history %r then %r: output %r, in a fresh interpreter %r'
                          % (P('r'), [ROLE_PROBES[k] for k in seq[:j]], ROLE_PROBES[i], outs[j], base[i]))
    return False, 'history %r under %s: every output equals the fresh one' % (seq, P('r'))


@lemma('G4.histories', 'C11', quick=[{'r': r, 'n': 2} for r in G4_RENDERERS], thorough=[{'r': r, 'n': n} for r in G4_RENDERERS for n in (2, 3)], timeout=900, per_path=120,
       replay=g4_replay, stubs=['each history runs concretely in a fresh plain interpreter; the solver only chooses the history'],
       covers=['span_token.py:EscapeSequence.strip', 'span_tokenizer.py:tokenize', 'block_token.py:CodeFence.__init__', 'block_token.py:Footnote.__init__'],
       note='histories are the symbolic variable: every sequence of n documents drawn from 8 probes that put the same strings (entities without semicolon, backslash escapes) into '
            'block-phase roles (fence info, definitions) and inline-phase roles (destinations, titles, code, text) is rendered in one fresh interpreter; every output equals the one '
            'obtained in an interpreter that rendered nothing else.  Solver-enumerated finite domain; catches result caches whose key forgets the phase')
def g4_histories(i1: int, i2: int, i3: int) -> bool:
    """
    pre: 0 <= i1 < 8 and 0 <= i2 < 8 and 0 <= i3 < 8
    post: _
    """
    from vfy.lemma import untraced
    n = P('n')
    seq = [_pick(i1, 8), _pick(i2, 8), _pick(i3, 8) if n > 2 else 0][:n]
    with untraced():
        outs = run_history(P('r'), seq)
        base = role_baseline()[P('r')]
    for j, i in enumerate(seq):
        if outs[j] != base[i]:
            return False
    return True
