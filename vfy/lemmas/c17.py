"""C17 -- LaTeX output keeps its group / environment structure whatever the text says.

L1 kernels (render_raw_text, escape_url) on symbolic code points; L2 every render_* template
of LaTeXRenderer with one symbolic attribute at a time; L3 whole pipeline on tiny documents
under the LaTeX token set (math spans set aside by the property: '$' is excluded there).
"""
from vfy.lemma import lemma, P
from vfy.lemmas.common import cp_ok, cp_md, cp_in, S, all_ok, all_in, ks, fixed, by, ALPH14
from vfy.plug.stubs import install_quote
from vfy.lemmas.c08 import mk, raw, holes, hole
from mistletoe.latex_renderer import LaTeXRenderer
from mistletoe import span_token, block_token

ASSUMPTIONS = ['urllib.parse.quote replaced by its contract stub on symbolic input (self-tested each run)',
               'Σ excludes lone surrogates']
OUTSIDE = ['text longer than 3 / attributes longer than 2 characters (kernels are per-character maps)',
           'math spans ($...$), passed through by design', 'the content of verbatim regions (\\verb, lstlisting)']

SPECIAL = '$#{}&_%^\\'
ESCAPABLE = '$#{}&_%'


def latex_text_ok(out):
    """every LaTeX-special character appears only in escaped form:
    \\$ \\# \\{ \\} \\& \\_ \\%  \\^{}  \\textbackslash{}"""
    i = 0
    n = len(out)
    while i < n:
        c = out[i]
        if c == '\\':
            if out.startswith('\\textbackslash{}', i):
                i += 16
                continue
            if out.startswith('\\^{}', i):
                i += 4
                continue
            if i + 1 < n and out[i + 1] in ESCAPABLE:
                i += 2
                continue
            return False
        if c in SPECIAL:
            return False
        i += 1
    return True


def url_ok(out):
    """argument of hyperref's \\url{} / \\href{}{}: hyperref reads it with its own catcodes, so
    '&', '_' and '~' are legal there; what must not occur is a raw '%' or '#' (written \\% \\#),
    a brace, a backslash other than in \\% \\#, '$' or '^'"""
    i = 0
    n = len(out)
    while i < n:
        c = out[i]
        if c == '\\':
            if i + 1 < n and (out[i + 1] == '%' or out[i + 1] == '#'):
                i += 2
                continue
            return False
        if c == '%' or c == '#' or c == '{' or c == '}' or c == '$' or c == '^':
            return False
        i += 1
    return True


def _r():
    """a LaTeXRenderer built by its real constructor (so that whatever __init__ sets up is there), with the
    global token lists put back at once: the template lemmas call render methods on directly built tokens"""
    from mistletoe import block_token as _bt, span_token as _st
    r = LaTeXRenderer()
    _bt.reset_tokens()
    _st.reset_tokens()
    return r


def excl_backslash(c):
    """(was: recorded finding C17/backslash; repaired by a fix: commit -- nothing is excluded)"""
    return False


def first_cell(c1):
    """partition on the first code point: one LaTeX-special character, or 'other' = none of them"""
    w = P('c1', '\0any')
    if w == '\0any':
        return True
    if w == 'other':
        for ch in SPECIAL:
            if c1 == ord(ch):
                return False
        return True
    return c1 == ord(w)


def no_backslash(k, *cps):
    for c in cps[:k]:
        if excl_backslash(c):
            return False
    return True


@lemma('L1.raw_text', 'C17', quick=ks(2), thorough=ks(2) + by('c1', list(SPECIAL) + ['other'], [{'k': 3, 'timeout': 3000}, {'k': 4, 'timeout': 6000}]), timeout=600, canary=[{'k': 1, 'wrong_oracle': True}],
       covers=['latex_renderer.py:LaTeXRenderer.render_raw_text'])
def l1_raw_text(c1: int, c2: int, c3: int, c4: int) -> bool:
    """
    pre: first_cell(c1) and all_ok(cp_ok, P('k'), c1, c2, c3, c4)
    pre: no_backslash(P('k'), c1, c2, c3, c4)
    post: _
    """
    out = _r().render_raw_text(raw(S(P('k'), c1, c2, c3, c4)))
    if P('wrong_oracle', False) and 'textbackslash' in out:
        return False
    return latex_text_ok(out)


@lemma('L1.stateful', 'C17', quick=by('cf', [False, True], by('blk', [False, True], [{'k': 1}, {'k': 2}])), thorough=by('cf', [False, True], by('blk', [False, True], [{'k': 1}, {'k': 2}, {'k': 3, 'timeout': 3000}])), timeout=600,
       covers=['latex_renderer.py:LaTeXRenderer.render_raw_text', 'latex_renderer.py:LaTeXRenderer.render_inline_code', 'latex_renderer.py:LaTeXRenderer.render_block_code'],
       note='ONE renderer instance, the call sites of render_raw_text in the order a document can produce them: the same text first as code content (escape=False, through render_inline_code / render_block_code) and then as ordinary text (escape=True), and the other way round: the escaped result does not depend on the earlier call')
def l1_stateful(c1: int, c2: int, c3: int, code_first: bool, block: bool) -> bool:
    """
    pre: fixed(code_first, 'cf') and fixed(block, 'blk') and all_ok(cp_ok, P('k'), c1, c2, c3)
    post: _
    """
    r = _r()
    text = S(P('k'), c1, c2, c3)
    fresh = _r().render_raw_text(raw(text))

    def code():
        try:
            if block:
                r.render(mk(block_token.CodeFence, language='', children=(raw(text),)))
            else:
                r.render(mk(span_token.InlineCode, children=(raw(text),)))
        except RuntimeError:
            pass
    if code_first:
        code()
    out = r.render_raw_text(raw(text))
    if not code_first:
        code()
        out2 = r.render_raw_text(raw(text))
        if out2 != out:
            return False
    return out == fresh and latex_text_ok(out)


@lemma('L1.url', 'C17', quick=ks(3), thorough=ks(4), timeout=300, stubs=['urllib.parse.quote -> contract stub'],
       covers=['latex_renderer.py:LaTeXRenderer.escape_url'])
def l1_url(c1: int, c2: int, c3: int, c4: int) -> bool:
    """
    pre: all_ok(cp_ok, P('k'), c1, c2, c3, c4)
    post: _
    """
    install_quote()
    return url_ok(LaTeXRenderer.escape_url(S(P('k'), c1, c2, c3, c4)))


# ------------------------------------------------------------------------------ L2 templates

def balanced(out, verbatim_ok=True):
    """brace groups balanced and \\begin{x}/\\end{x} properly nested, escaped braces and the
    content of \\verb / lstlisting set aside; no unescaped special outside those regions
    except the structural ones the templates themselves write"""
    depth = 0
    envs = []
    i = 0
    n = len(out)
    while i < n:
        c = out[i]
        if c == '\\':
            if out.startswith('\\begin{', i) or out.startswith('\\end{', i):
                is_begin = out.startswith('\\begin{', i)
                j = out.find('}', i)
                if j < 0:
                    return False
                name = out[i + (7 if is_begin else 5):j]
                if is_begin:
                    envs.append((name, depth))
                    if name == 'lstlisting':
                        # the optional argument written by the template: [language=NAME]
                        nl = out.find('\n', j)
                        opt = out[j + 1:nl if nl >= 0 else n]
                        if not (opt.startswith('[language=') and opt.endswith(']')):
                            return False
                        for ch in opt[10:-1]:
                            if ch in '{}[]\\%$#&^_,= ':
                                return False
                        e = out.find('\\end{lstlisting}', j)
                        if e < 0:
                            return False
                        i = e
                        continue
                else:
                    if not envs or envs[-1][0] != name or envs[-1][1] != depth:
                        return False
                    envs.pop()
                i = j + 1
                continue
            if out.startswith('\\href{', i) or out.startswith('\\url{', i):
                a = i + (6 if out.startswith('\\href{', i) else 5)
                j = out.find('}', a)
                if j < 0 or not url_ok(out[a:j]):
                    return False
                i = j + 1
                continue
            if out.startswith('\\verb', i) and i + 5 < n:
                d = out[i + 5]
                e = out.find(d, i + 6)
                if e < 0:
                    return False
                i = e + 1
                continue
            if i + 1 < n and out[i + 1] in '{}\\$#&_%^':
                i += 2
                continue
            i += 1
            continue
        if c == '{':
            depth += 1
        elif c == '}':
            depth -= 1
            if depth < 0:
                return False
        elif c == '%' or c == '$' or c == '#' or c == '&' or c == '^' or c == '_':
            # an unescaped special: only '&' inside a tabular row is structural
            if not (c == '&' and envs and envs[-1][0] == 'tabular'):
                return False
        i += 1
    return depth == 0 and not envs


def excl_l2(holename, k, c1, c2, c3):
    """recorded findings (call-site keyed): image source and code-block language are interpolated
    raw into \\includegraphics{...} / [language=...]"""
    if P('noexcl', False):
        return False
    return holename in ('src', 'language') and k > 0


@lemma('L2.inline', 'C17', quick=holes(['target', 'text', 'autolink'], 2) + [{'hole': 'src', 'k': 0}], thorough=holes(['target', 'text', 'autolink'], 3) + [{'hole': 'src', 'k': 0}],
       timeout=400, stubs=['urllib.parse.quote -> contract stub', 'tokens built directly'],
       canary=[{'hole': 'src', 'k': 1, 'noexcl': True}],
       covers=['latex_renderer.py:LaTeXRenderer.render_link', 'latex_renderer.py:LaTeXRenderer.render_image',
               'latex_renderer.py:LaTeXRenderer.render_auto_link', 'latex_renderer.py:LaTeXRenderer.render_strong',
               'latex_renderer.py:LaTeXRenderer.render_emphasis', 'latex_renderer.py:LaTeXRenderer.render_strikethrough'])
def l2_inline(c1: int, c2: int, c3: int, soft: bool) -> bool:
    """
    pre: all_ok(cp_ok, P('k'), c1, c2, c3)
    pre: not excl_l2(P('hole'), P('k'), c1, c2, c3)
    post: _
    """
    install_quote()
    r = _r()
    text = raw(hole('text', 'x', c1, c2, c3))
    toks = [
        mk(span_token.Link, target=hole('target', '/u', c1, c2, c3), title='', children=[text]),
        mk(span_token.Image, src=hole('src', 'u.png', c1, c2, c3), title='', children=[text]),
        mk(span_token.AutoLink, target=hole('autolink', 'a:b', c1, c2, c3), mailto=False, children=(text,)),
        mk(span_token.Strong, children=[mk(span_token.Emphasis, children=[mk(span_token.Strikethrough, children=[text])])]),
        mk(span_token.Emphasis, children=[text, mk(span_token.LineBreak, soft=soft, content=''), text]),
        mk(span_token.EscapeSequence, children=(text,)),
    ]
    for t in toks:
        if not balanced(r.render(t)):
            return False
    return True


@lemma('L2.code', 'C17', quick=holes(['content'], 2) + [{'hole': 'language', 'k': 0}], thorough=holes(['content'], 3) + [{'hole': 'language', 'k': 0}], timeout=400,
       canary=[{'hole': 'language', 'k': 1, 'noexcl': True}],
       stubs=['tokens built directly'],
       covers=['latex_renderer.py:LaTeXRenderer.render_inline_code', 'latex_renderer.py:LaTeXRenderer.render_block_code'])
def l2_code(c1: int, c2: int, c3: int) -> bool:
    """
    pre: all_ok(cp_ok, P('k'), c1, c2, c3)
    pre: P('hole') != 'language' or not excl_l2('language', P('k'), c1, c2, c3)
    post: _
    """
    r = _r()
    content = hole('content', 'x', c1, c2, c3)
    bc = mk(block_token.CodeFence, language=hole('language', 'py', c1, c2, c3), children=(raw(content + '\n'),))
    if not balanced(r.render(bc)):
        return False
    ic = mk(span_token.InlineCode, children=(raw(content),))
    try:
        out = r.render(ic)
    except RuntimeError:
        return True            # the documented refusal: no \verb delimiter is free
    # \verb<d>content<d> with a delimiter that does not occur in the content
    if not out.startswith('\\verb') or len(out) != len(content) + 7:
        return False
    d = out[5]
    return out[-1] == d and d not in content and out[6:-1] == content


@lemma('L2.blocks', 'C17', quick=[{'kind': k} for k in range(5)], timeout=300, stubs=['tokens built directly'],
       covers=['latex_renderer.py:LaTeXRenderer.render_heading', 'latex_renderer.py:LaTeXRenderer.render_quote',
               'latex_renderer.py:LaTeXRenderer.render_paragraph', 'latex_renderer.py:LaTeXRenderer.render_list',
               'latex_renderer.py:LaTeXRenderer.render_list_item', 'latex_renderer.py:LaTeXRenderer.render_table',
               'latex_renderer.py:LaTeXRenderer.render_table_row', 'latex_renderer.py:LaTeXRenderer.render_table_cell',
               'latex_renderer.py:LaTeXRenderer.render_document', 'latex_renderer.py:LaTeXRenderer.render_thematic_break'])
def l2_blocks(c1: int, level: int, ordered: bool, nkids: int, align: int, header: bool) -> bool:
    """
    pre: cp_ok(c1) and not excl_backslash(c1) and 1 <= level <= 6 and 0 <= nkids <= 2 and -1 <= align <= 1
    post: _
    """
    kind = P('kind')
    r = _r()
    text = chr(c1)
    para = mk(block_token.Paragraph, children=[raw(text)])
    kids = [para for _ in range(nkids)]
    if kind == 0:
        tok = mk(block_token.Heading, level=level, children=[raw(text)])
    elif kind == 1:
        tok = mk(block_token.Quote, children=kids)
    elif kind == 2:
        items = [mk(block_token.ListItem, children=list(kids), loose=False, leader='-', prepend=2, indentation=0)]
        tok = mk(block_token.List, children=items, loose=False, start=1 if ordered else None)
    elif kind == 3:
        tok = mk(block_token.Document, children=kids + [mk(block_token.ThematicBreak, line='---')], footnotes={})
    else:
        al = None if align < 0 else align
        cell = mk(block_token.TableCell, align=al, children=[raw(text)])
        row = mk(block_token.TableRow, row_align=[al], children=[cell, cell])
        tok = mk(block_token.Table, column_align=[al, al], children=[row for _ in range(nkids)])
        if header:
            tok.header = row
        else:
            tok._absent_ = ('header',)       # Table.__init__ sets .header only when there is a delimiter row
    return balanced(r.render(tok))


# ------------------------------------------------------------------ L3 whole pipeline, tiny docs

L3_ALPH = 'a \n*_`[]()>-#\\{}%&^'


@lemma('L3.pipeline', 'C17', quick=[{'k': 1, 'sigma': True}] + by('c1', list('\\{}%&^#_`['), [{'k': 2, 'sigma': False}]),
       thorough=[{'k': 1, 'sigma': True}] + by('c1', list(L3_ALPH), [{'k': 2, 'sigma': False}, {'k': 3, 'sigma': False, 'timeout': 3000}]),
       timeout=600, per_path=60, stubs=['urllib.parse.quote -> contract stub'],
       covers=['block_token.py:Document.__init__', 'latex_renderer.py:LaTeXRenderer.render_document'],
       note="whole parse-and-render under the LaTeX token set; '$' is not in the alphabet (math spans are set aside by the property)")
def l3_pipeline(c1: int, c2: int, c3: int) -> bool:
    """
    pre: (all_ok(cp_ok, P('k'), c1, c2, c3) and c1 != 36) if P('sigma') else all_in(L3_ALPH, P('k'), c1, c2, c3)
    pre: fixed(c1, 'c1')
    pre: not l3_excluded(P('k'), c1, c2, c3)
    post: _
    """
    from mistletoe import Document
    install_quote()
    s = S(P('k'), c1, c2, c3)
    with LaTeXRenderer() as r:
        try:
            out = r.render(Document(s))
        except RuntimeError as e:
            return 'Unable to find delimiter' in str(e)
    return balanced(out)


def l3_excluded(k, c1, c2, c3):
    """documents that can reach one of the recorded findings: a backslash that ends up as text"""
    return not no_backslash(k, c1, c2, c3)


# ------------------------------------------------------------------ witnesses of findings

def witness_backslash():
    import mistletoe
    out = mistletoe.markdown('a\\\\{b\n', LaTeXRenderer)
    body = out.split('\\begin{document}\n', 1)[1].rsplit('\\end{document}', 1)[0]
    return not latex_text_ok(body.strip('\n')), 'markdown(%r, LaTeXRenderer) body = %r' % ('a\\\\{b\n', body)


def witness_image_src():
    import mistletoe
    out = mistletoe.markdown('![a](<x}y>)\n', LaTeXRenderer)
    return not balanced(out), 'markdown(%r, LaTeXRenderer) = %r' % ('![a](<x}y>)', out)


def witness_code_language():
    import mistletoe
    out = mistletoe.markdown('```a]{\nx\n```\n', LaTeXRenderer)
    return ('[language=a]{]' in out), 'markdown(%r, LaTeXRenderer) = %r' % ('```a]{\\nx\\n```', out)


# ---------------------------------------------------------------------------------------- L4
# the LaTeX renderer on REAL tokens with one symbolic attribute (see C01-T4)

L4_HOLES = ['text', 'heading-text', 'item-text', 'cell-text', 'quote-text', 'emphasis-text', 'fence-content', 'indented-content', 'code-span',
            'link-target', 'link-title', 'image-title', 'autolink']      # Math content is passed through verbatim by design: the oracle has no math region


def l4_deliverable(c1, c2, c3):
    from vfy.lemmas.c01 import T4_HOLES
    return T4_HOLES[P('hole')][3](S(P('k'), c1, c2, c3))


def l4_replay(c1, c2, c3):
    from mistletoe import Document
    from mistletoe.latex_renderer import LaTeXRenderer
    from vfy.lemmas.c01 import T4_HOLES
    w = S(P('k'), c1, c2, c3)
    skeleton, path, setter, deliverable, texts = T4_HOLES[P('hole')]
    if not deliverable(w):
        return False, 'pre-condition false for %r' % w
    seen = []
    for text in texts(w):
        try:
            with LaTeXRenderer() as r:
                out = r.render(Document(text))
        except RuntimeError as e:
            if 'Unable to find delimiter' in str(e):
                continue
            raise
        if not balanced(out):
            return True, 'LaTeXRenderer().render(Document(%r)) = %r: structure broken' % (text, out)
        seen.append((text, out))
    return False, 'no text delivering %r breaks the structure: %r' % (w, seen)


@lemma('L4.render-attrs', 'C17', quick=[{'hole': h, 'k': 2} for h in L4_HOLES], thorough=[{'hole': h, 'k': k} for h in L4_HOLES for k in (0, 1, 2)] + [{'hole': h, 'k': 3, 'timeout': 3000} for h in L4_HOLES],
       timeout=600, per_path=60, replay=l4_replay,
       stubs=['urllib.parse.quote -> contract stub', 'concrete skeleton parsed natively, one attribute replaced by the symbolic string'],
       covers=['latex_renderer.py:LaTeXRenderer.render_document', 'latex_renderer.py:LaTeXRenderer.render_raw_text', 'latex_renderer.py:LaTeXRenderer.render_table'],
       note='every string attribute LaTeXRenderer reads (image source and fence language are recorded findings and left out) takes any k-character value the parser can deliver: '
            'groups and environments balanced, no unescaped special outside verbatim / URL regions; counterexamples replayed through Document(text) only')
def l4_render_attrs(c1: int, c2: int, c3: int) -> bool:
    """
    pre: all_ok(cp_md, P('k'), c1, c2, c3) and l4_deliverable(c1, c2, c3)
    post: _
    """
    from mistletoe import Document
    from mistletoe.latex_renderer import LaTeXRenderer
    from vfy.lemma import untraced
    from vfy.lemmas.c01 import T4_HOLES
    install_quote()
    w = S(P('k'), c1, c2, c3)
    skeleton, path, setter, deliverable, texts = T4_HOLES[P('hole')]
    with LaTeXRenderer() as r:
        with untraced():
            doc = Document(skeleton)
        t = doc
        for i in path:
            t = t.children[i]
        setter(t, w)
        try:
            out = r.render(doc)
        except RuntimeError as e:
            if 'Unable to find delimiter' in str(e):
                return True
            raise
    return balanced(out)
