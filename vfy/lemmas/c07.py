"""C07 -- link reference definitions: position-independent, first wins, case-folded."""
from vfy.lemma import lemma, P, give_up
from vfy.lemmas.common import S, SC, all_in, by, fixed, cp_in
from mistletoe import core_tokens as ct, block_token as bt, token as tokmod

ASSUMPTIONS = ['C07: labels range over the finite alphabet A = {a, A, ß, ẞ, ſ, Σ, σ, ς, space, tab, newline, [, ], backslash} (str.casefold is C-level: CrossHair realises its argument, so the alphabet is finite and stated)',
               'the Unicode case folding of A is written out from CaseFolding.txt in the reference normaliser']
OUTSIDE = ['labels longer than 3 characters', 'case folding beyond the alphabet A', 'definitions whose destination/title need the full scanner grammar (R3 covers a skeleton family)']

# case pairs and multi-character folds, white space, brackets -- and representatives of the Unicode relations that are
# NOT case folding and must not be identified: compatibility (superscript two / 2), width (fullwidth a / a),
# canonical composition (e-acute / e + combining acute).  K (Kelvin sign) and the fi ligature DO fold (to k, fi).
A = 'aAßẞſΣσς \t\n[]\\' + '2\u00b2\uff41e\u00e9\u0301k\u212a\ufb01fi'
FOLD = {'A': 'a', 'ß': 'ss', 'ẞ': 'ss', 'ſ': 's', 'Σ': 'σ', 'ς': 'σ', '\u212a': 'k', '\ufb01': 'fi'}


def ref_normalize(label):
    """spec 4.7 / 6.3: strip leading and trailing spaces, tabs and line endings, collapse internal
    runs of them to one space, perform the Unicode case fold"""
    out = []
    pending = False
    for ch in label:
        if ch == ' ' or ch == '\t' or ch == '\n':
            pending = True
            continue
        if pending and out:
            out.append(' ')
        pending = False
        out.append(FOLD.get(ch, ch))
    return ''.join(out)


@lemma('R1.normalisation', 'C07', quick=[{'k1': 1, 'k2': 1}] + by('a1', list(A), [{'k1': 2, 'k2': 1}, {'k1': 1, 'k2': 2}]),
       thorough=[{'k1': 1, 'k2': 1}, {'k1': 2, 'k2': 1}, {'k1': 1, 'k2': 2}, {'k1': 3, 'k2': 0}] + by('a1', list(A), [{'k1': 2, 'k2': 2, 'timeout': 3000}, {'k1': 3, 'k2': 1, 'timeout': 3000}]),
       timeout=900, per_path=60,
       covers=['core_tokens.py:normalize_label'],
       note='two labels over the alphabet A of each length: normalize_label(l1) == normalize_label(l2) iff the reference normaliser agrees; and normalize_label equals the reference on each')
def r1_norm(a1: int, a2: int, a3: int, b1: int, b2: int, b3: int) -> bool:
    """
    pre: fixed(a1, 'a1') and all_in(A, P('k1'), a1, a2, a3) and all_in(A, P('k2'), b1, b2, b3)
    post: _
    """
    l1 = SC(P('k1'), A, a1, a2, a3)
    l2 = SC(P('k2'), A, b1, b2, b3)
    n1, n2 = ct.normalize_label(l1), ct.normalize_label(l2)
    r1, r2 = ref_normalize(l1), ref_normalize(l2)
    return n1 == r1 and n2 == r2 and (n1 == n2) == (r1 == r2)


class Root:
    def __init__(self):
        self.footnotes = {}


@lemma('R2.first-wins', 'C07', quick=[{'k': 1}], thorough=[{'k': 1}] + by('a1', list('aA ß'), by('b1', list('aA ß'), [{'k': 2, 'timeout': 3000}])), timeout=900, per_path=60,
       covers=['block_token.py:Footnote.append_footnotes', 'core_tokens.py:normalize_label'],
       note='a pre-existing entry and two new definitions with symbolic labels (over A), dests and titles: the stored value is that of the first definition in order whose normalised label matches; later ones never overwrite')
def r2_first_wins(a1: int, a2: int, b1: int, b2: int, c1: int, c2: int, d1: int, d2: int) -> bool:
    """
    pre: all_in('aA ß', P('k'), a1, a2) and all_in('aA ß', P('k'), b1, b2) and all_in('aA ß', P('k'), c1, c2)
    pre: fixed(a1, 'a1') and fixed(b1, 'b1') and all_in('xy', 1, d1) and all_in('xy', 1, d2)
    post: _
    """
    k = P('k')
    l0, l1, l2 = SC(k, 'aA ß', a1, a2), SC(k, 'aA ß', b1, b2), SC(k, 'aA ß', c1, c2)
    root = Root()
    defs = [(l0, 'd0', 't0'), (l1, chr(d1), 't1'), (l2, chr(d2), 't2')]
    bt.Footnote.append_footnotes([defs[0] + ('uri', None)], root)
    bt.Footnote.append_footnotes([defs[1] + ('uri', None), defs[2] + ('uri', None)], root)
    want = {}
    for lab, dest, title in defs:
        key = ref_normalize(lab)
        if key not in want:
            want[key] = (dest, title)
    return root.footnotes == want


def _root_with(defs):
    r = Root()
    for lab, dest, title in defs:
        key = ref_normalize(lab)
        if key not in r.footnotes:
            r.footnotes[key] = (dest, title)
    return r


@lemma('R4.lookup', 'C07', quick=[{'k': k, 'form': f} for k in (1, 2) for f in ('full', 'collapsed', 'shortcut')],
       thorough=[{'k': k, 'form': f} for k in (1, 2, 3) for f in ('full', 'collapsed', 'shortcut')], timeout=900, per_path=60,
       covers=['core_tokens.py:match_link_image', 'core_tokens.py:match_link_label', 'core_tokens.py:get_link_label',
               'core_tokens.py:find_core_tokens'],
       note="'[t][l]', '[l][]', '[l]' with the label l symbolic over {a, A, ß, space} and a root holding two definitions ('a' and 'ss'): resolves to the definition with equal normalised label, else stays literal")
def r4_lookup(c1: int, c2: int, c3: int) -> bool:
    """
    pre: all_in('aAß ', P('k'), c1, c2, c3)
    post: _
    """
    lab = SC(P('k'), 'aAß ', c1, c2, c3)
    root = _root_with([('a', '/first', 'T1'), ('A', '/second', 'T2'), ('SS', '/ess', 'T3')])
    form = P('form')
    text = {'full': '[t][%s]', 'collapsed': '[%s][]', 'shortcut': '[%s]'}[form] % lab
    matches = ct.find_core_tokens(text, root)
    links = [m for m in matches if m.type == 'Link']
    key = ref_normalize(lab)
    want = root.footnotes.get(key) if key != '' else None
    if want is None:
        return links == []
    if len(links) != 1:
        return False
    m = links[0]
    return m.group(2) == want[0] and m.group(3) == want[1] and m.start() == 0 and m.end() == len(text)


NESTINGS = {'top': '{}', 'quote': '> {}', 'item': '- {}', 'quote-in-item': '- > {}'}


def _place(defline, pos, nesting):
    blocks = ['p1 [foo]', '# h [Foo]', 'p3 ![FOO][]', 'setext [fOO]\n===']
    lines = []
    for i, b in enumerate(blocks + [None]):
        if i == pos:
            lines.append(NESTINGS[nesting].format(defline))
            lines.append('')
        if b is not None:
            lines.append(b)
            lines.append('')
    return '\n'.join(lines) + '\n'


@lemma('R5.two-phases', 'C07', quick=[{'nest': n} for n in sorted(NESTINGS)], timeout=900, per_path=120,
       stubs=['span_token.tokenize_inner wrapped by a recorder'],
       covers=['block_tokenizer.py:tokenize_block', 'block_tokenizer.py:make_tokens', 'block_token.py:Footnote.read', 'block_token.py:Quote.read',
               'block_token.py:ListItem.read', 'block_token.py:Document.__init__'],
       note='the definition sits at symbolic block index p in 0..4 (solver-enumerated; uses in a paragraph, an ATX heading, an image and a setext heading) under each nesting; a second, later definition of the same label is appended: at the first inline parse root.footnotes already equals its final value, every reference resolves to the first definition, the definition emits no output')
def r5_two_phases(p: int, dup: int) -> bool:
    """
    pre: 0 <= p <= 4 and 0 <= dup <= 3
    post: _
    """
    from mistletoe import Document, span_token
    from mistletoe.html_renderer import HtmlRenderer
    text = _place('[foo]: /first "one"', p, P('nest'))
    text += '\n' + NESTINGS['quote' if dup % 2 else 'top'].format('[FOO]: /second "two"') + '\n'
    seen = []
    orig = span_token.tokenize_inner

    def spy(content):
        seen.append(dict(tokmod._root_node.footnotes))
        return orig(content)
    span_token.tokenize_inner = spy
    try:
        with HtmlRenderer() as r:
            doc = Document(text)
            out = r.render(doc)
    finally:
        span_token.tokenize_inner = orig
    if doc.footnotes != {'foo': ('/first', 'one')}:
        return False
    if not seen:
        give_up('span_token.tokenize_inner was never called')
    if any(s != doc.footnotes for s in seen):
        return False
    return (out.count('href="/first"') == 3 and out.count('src="/first"') == 1 and out.count('title="one"') == 4
            and '/second' not in out and '[foo]:' not in out and '[FOO]:' not in out)


# ------------------------------------------------------------------------------------ R3

R3_ALPH = 'a[]\\<>"\'() \n'
R3_SKELETONS = {
    'D': ['[a]: {}\n', '[a]: {} "t"\n', '[a]: {}\n"t"\n', '[a]:\n{} (t)\n'],
    'T': ['[a]: /u {}\n', '[a]: /u\n{}\n', '[a]: <u v> {} \n'],
    'L': ['[{}]: /u "t"\n', ' [{}]:/u\n'],
}


def no_blank_line(s):
    """a paragraph has no blank line inside (Footnote.read never hands one to the scanner)"""
    for line in s[:-1].split('\n'):
        if line.strip(' \t') == '':
            return False
    return True


def side_linkdef_reference():
    import os
    from vfy.ref import linkdef
    n, bad = linkdef.validate(os.path.join(os.path.dirname(linkdef.__file__), 'commonmark-0.30.json'))
    return (n >= 15 and not bad), 'link definition reference agrees with %d/%d applicable spec examples of section 4.7 %s' % (n - len(bad), n, bad[:2] if bad else '')


SIDE_CONDITIONS = [side_linkdef_reference]


def excl_paren_title(s):
    """recorded/fixed finding helper (none at present)"""
    return False


@lemma('R3.definition-scanner', 'C07', quick=[{'hole': h, 'sk': i, 'k': k} for h in 'DTL' for i in range(len(R3_SKELETONS[h])) for k in (1, 2)],
       thorough=[{'hole': h, 'sk': i, 'k': k} for h in 'DTL' for i in range(len(R3_SKELETONS[h])) for k in (1, 2, 3)], timeout=900, per_path=90,
       covers=['block_token.py:Footnote.match_reference', 'block_token.py:Footnote.match_link_label', 'block_token.py:Footnote.match_link_dest',
               'block_token.py:Footnote.match_link_title', 'core_tokens.py:shift_whitespace'],
       note="skeleton '[L]: D T' with ONE of label / destination / title symbolic (k characters over a 12-character alphabet of brackets, quotes, parentheses, backslash, space, newline): "
            'whenever the reference scanner (spec 4.7) finds a definition, Footnote.match_reference finds the same label, destination, title and end; '
            'strings the reference rejects are not constrained (grammar conformance is C02/C03 territory)')
def r3_scanner(c1: int, c2: int, c3: int) -> bool:
    """
    pre: all_in(R3_ALPH, P('k'), c1, c2, c3)
    pre: no_blank_line(R3_SKELETONS[P('hole')][P('sk')].format(S(P('k'), c1, c2, c3)))
    post: _
    """
    from vfy.ref import linkdef
    s = R3_SKELETONS[P('hole')][P('sk')].format(S(P('k'), c1, c2, c3))
    ref = linkdef.parse_definition(s)
    if ref is None:
        return True
    got = bt.Footnote.match_reference(s, 0)
    if got is None:
        return False
    end, (label, dest, title, dest_type, title_delim) = got
    return (label, dest, title, end) == ref


def witness_paren_title():
    """(fixed) a parenthesised title accepted an unescaped '(' : '[a]: /u' + '(()' swallowed the second line"""
    import mistletoe
    out = mistletoe.markdown('[a]: /u\n(()\n\n[a]\n')
    return '(()' not in out, "markdown('[a]: /u\\n(()\\n\\n[a]') = %r" % out


def witness_setext_forward_reference():
    """(fixed) a setext heading was built (and its inline content parsed) during the block phase, so a
    reference in it to a definition further down stayed literal"""
    import mistletoe
    out = mistletoe.markdown('[foo]\n===\n\n[foo]: /url\n')
    return 'href="/url"' not in out, "markdown('[foo]\\n===\\n\\n[foo]: /url') = %r" % out


class _Root:
    def __init__(self):
        self.footnotes = {}


@lemma('R3.read-cursor', 'C07', quick=[{'hole': h, 'sk': i, 'k': k} for h in 'DT' for i in range(len(R3_SKELETONS[h])) for k in (1, 2)],
       thorough=[{'hole': h, 'sk': i, 'k': k} for h in 'DTL' for i in range(len(R3_SKELETONS[h])) for k in (1, 2, 3)], timeout=900, per_path=90,
       covers=['block_token.py:Footnote.read', 'block_token.py:Footnote.match_reference', 'block_tokenizer.py:FileWrapper.get_pos'],
       note="the same skeletons followed by a non-definition line 'bar': whenever the reference scanner finds a definition, Footnote.read leaves the cursor on the last line of that definition "
            '(so that the following line is parsed as a block of its own, and no line of the definition is parsed again)')
def r3_read_cursor(c1: int, c2: int, c3: int) -> bool:
    """
    pre: all_in(R3_ALPH, P('k'), c1, c2, c3)
    pre: no_blank_line(R3_SKELETONS[P('hole')][P('sk')].format(S(P('k'), c1, c2, c3)))
    post: _
    """
    from vfy.ref import linkdef
    from mistletoe import block_tokenizer as btk
    s = R3_SKELETONS[P('hole')][P('sk')].format(S(P('k'), c1, c2, c3)) + 'bar\n'
    ref = linkdef.parse_definition(s)
    if ref is None:
        return True
    label, dest, title, end = ref
    if linkdef.parse_definition(s[end:]) is not None:
        return True                       # a second definition follows: only the single-definition case is asserted
    lines = s.split('\n')[:-1]
    lines = [ln + '\n' for ln in lines]
    fw = btk.FileWrapper(lines)
    tokmod._root_node = _Root()
    try:
        res = bt.Footnote.read(fw)
    finally:
        tokmod._root_node = None
    if not res or len(res) != 1:
        return False
    return fw._index + 1 == s[:end].count('\n')
