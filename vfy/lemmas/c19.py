"""C19 -- the table of contents lists exactly the qualifying headings, in order."""
from vfy.lemma import lemma, P
from vfy.lemmas.common import by, fixed
from mistletoe import block_token as bt
from mistletoe.contrib.toc_renderer import TocRenderer

ASSUMPTIONS = ['C19/O1: headings are stub tokens with a symbolic level; render_inner is stubbed to a level-independent word; filter predicates return symbolic booleans']
OUTSIDE = ['more than 4 headings', 'titles other than plain words']


class H:
    def __init__(self, level, word):
        self.level = level
        self.word = word
        self.children = []


def _renderer(depth, omit_title, conds, stub_html=False):
    r = TocRenderer(depth=depth, omit_title=omit_title, filter_conds=conds)
    r.render_inner = lambda tok: tok.word
    return r


class _StubbedHeading:
    """HtmlRenderer.render_heading replaced by a level-independent template while O1 runs: formatting a
    symbolic int into the tag would force the solver to enumerate it, and O1 is about the FILTER
    (C18-X1 relates TocRenderer.render_heading's return value to HtmlRenderer's)."""
    def __enter__(self):
        from mistletoe.html_renderer import HtmlRenderer
        self.cls = HtmlRenderer
        self.orig = HtmlRenderer.render_heading
        HtmlRenderer.render_heading = lambda s, token: '<h>' + s.render_inner(token) + '</h>'

    def __exit__(self, *a):
        self.cls.render_heading = self.orig
        return False


def concretise(v, lo, hi):
    """force the solver to pick the value (one path per value): used where the code formats the integer into text"""
    for x in range(lo, hi + 1):
        if v == x:
            return x
    return v


@lemma('O1.filter', 'C19', quick=[{'k': k} for k in (1, 2, 3)] + [{'k': k, 'same': True} for k in (2, 3)], thorough=[{'k': k} for k in (1, 2, 3, 4)] + [{'k': k, 'same': True} for k in (2, 3, 4)], timeout=400,
       stubs=['heading tokens', 'render_inner', 'filter predicates', 'HtmlRenderer.render_heading -> level-independent template'],
       covers=['contrib/toc_renderer.py:TocRenderer.render_heading', 'contrib/toc_renderer.py:TocRenderer.parse_rendered_heading'],
       note='k headings with ALL integer levels, depth (unbounded int), omit_title, per-heading filter verdicts symbolic')
def o1_filter(l1: int, l2: int, l3: int, l4: int, depth: int, omit_title: bool, f1: bool, f2: bool, f3: bool, f4: bool) -> bool:
    """
    post: _
    """
    k = P('k')
    levels = [l1, l2, l3, l4][:k]
    verdicts = [f1, f2, f3, f4][:k]
    words = ['w%d' % i for i in range(k)]
    if P('same', False):
        # repeated titles ("Options" under every chapter): all headings carry the same text, one filter verdict for it
        words = ['w'] * k
        verdicts = [f1] * k
    skip = dict(zip(words, verdicts))
    try:
        with _StubbedHeading():
            r = _renderer(depth, omit_title, [lambda content: skip[content]])
            outs = [r.render_heading(H(l, w)) for l, w in zip(levels, words)]
            got = list(r._headings)
    finally:
        bt.reset_tokens()
        __import__('mistletoe').span_token.reset_tokens()
    want = [(l, w) for l, w, f in zip(levels, words, verdicts)
            if not (omit_title and l == 1) and not l > depth and not f]
    for o, w in zip(outs, words):
        if o != '<h>%s</h>' % w:
            return False
    return got == want


def outline(levels, top):
    """levels form an outline: first at the shallowest level, never deepen by more than one"""
    if not levels or levels[0] != top:
        return False
    for a, b in zip(levels, levels[1:]):
        if b > a + 1 or b < top:
            return False
    return True


def shape(lst):
    """nesting of a List token: per item (text, [nested shape])"""
    out = []
    for item in lst.children:
        text = ''
        nested = []
        for ch in item.children:
            if isinstance(ch, bt.List):
                nested = shape(ch)
            elif isinstance(ch, bt.Paragraph):
                text = ''.join(getattr(c, 'content', '') for c in ch.children)
        out.append((text, nested))
    return out


def expected_outline(headings, top):
    """oracle: nest (level, text) pairs by level"""
    root = []
    stack = [(top - 1, root)]
    for level, text in headings:
        while stack[-1][0] >= level:
            stack.pop()
        node = (text, [])
        stack[-1][1].append(node)
        stack.append((level, node[1]))
    return root


@lemma('O2.outline', 'C19', quick=[{'k': k, 'omit': o} for k in (1, 2, 3, 4) for o in (False, True)],
       thorough=[{'k': k, 'omit': o} for k in (1, 2, 3, 4, 5) for o in (False, True)], timeout=600, per_path=90,
       covers=['contrib/toc_renderer.py:TocRenderer.toc', 'block_token.py:tokenize', 'block_token.py:List.read', 'block_token.py:ListItem.read'],
       note='k headings whose levels form an outline (pre-condition), levels 1..6; the real toc property re-tokenizes the indented list lines')
def o2_outline(l1: int, l2: int, l3: int, l4: int, l5: int) -> bool:
    """
    pre: outline([l1, l2, l3, l4, l5][:P('k')], 2 if P('omit') else 1) and all(l <= 6 for l in [l1, l2, l3, l4, l5][:P('k')])
    post: _
    """
    k = P('k')
    omit = P('omit')
    levels = [l1, l2, l3, l4, l5][:k]
    words = ['w%d' % i for i in range(k)]
    try:
        r = _renderer(6, omit, [])
        for l, w in zip(levels, words):
            r.render_heading(H(l, w))
        toc = r.toc
    finally:
        bt.reset_tokens()
        __import__('mistletoe').span_token.reset_tokens()
    if not isinstance(toc, bt.List):
        return False
    return shape(toc) == expected_outline(list(zip(levels, words)), 2 if omit else 1)


DOCS = {
    'atx': '{a} aa\n\ntext\n\n{b} bb\n\n{c} cc\n',
    'quote': '> {a} aa\n>\n> {b} bb\n\n{c} cc\n',
    'item': '- {a} aa\n\n  {b} bb\n\n{c} cc\n',
}


@lemma('O3.end-to-end', 'C19', quick=[{'doc': d, 'b': b} for d in sorted(DOCS) for b in (1, 2, 3)],
       thorough=[{'doc': d, 'b': b} for d in sorted(DOCS) for b in (1, 2, 3, 4, 5, 6)], timeout=600, per_path=120,
       covers=['contrib/toc_renderer.py:TocRenderer.render_heading', 'contrib/toc_renderer.py:TocRenderer.toc',
               'html_renderer.py:HtmlRenderer.render_heading'],
       note='three ATX headings (top level / in a quote / in a list item); two levels symbolic in 1..6 (solver-enumerated: the level is written into the text), depth an unbounded int; through TocRenderer().render(Document(...))')
def o3_end_to_end(a: int, b: int, c: int, depth: int, omit: bool) -> bool:
    """
    pre: 1 <= a <= 6 and b == P('b') and c == 2
    post: _
    """
    from mistletoe import Document
    a = concretise(a, 1, 6)
    b = P('b')
    text = DOCS[P('doc')].format(a='#' * a, b='#' * b, c='#' * c)
    with TocRenderer(depth=depth, omit_title=omit) as r:
        r.render(Document(text))
        got = list(r._headings)
    want = [(l, w) for l, w in ((a, 'aa'), (b, 'bb'), (c, 'cc')) if not (omit and l == 1) and l <= depth]
    return got == want
