"""C05 -- blocks separated by a blank line are parsed independently of each other.

tokenize_block carries only (cursor, parse buffer, class scratch) from one iteration to the
next.  F1: the reader of A's last block stops at the blank line without looking past it (the
lines after the blank are two UNCONSTRAINED symbolic lines: any read of them forks and shows
up as a differing result).  F2 (= C13-N1): line numbers translate with the start line.
Scratch state: C11-G1.  F3: whole pipeline on tiny A, B.
"""
from vfy.lemma import lemma, P
from vfy.lemmas.common import S, cp_md, all_ok, all_in, ALPH14, by, fixed, ast_of, cell, cells
from mistletoe import block_token as bt, block_tokenizer as btk, token as tokmod

ASSUMPTIONS = ['C05: composition parse(A+blank+B) = parse(A) ++ shift(parse(B)) from F1 (frame), F2 (shift), C11-G1 (scratch) is prose']
OUTSIDE = ['A ending in a list, code block or HTML block (excluded by the property)', 'documents defining link references',
           'A longer than the skeletons of F1 / the F3 bound']

# closed-block skeletons: (lines of A with one hole '{}', token type that reads the last block)
FRAMES = {
    'paragraph': ['p\n', '{}\n'],
    'heading': ['# {}\n'],
    'setext': ['{}\n', '===\n'],
    'thematic': ['p\n', '\n', '***{}\n'],
    'quote': ['> a\n', '> {}\n'],
    'table': ['|a|b|\n', '|-|-|\n', '|{}|d|\n'],
}


def no_nl(k, *cps):
    for c in cps[:k]:
        if c == 10:
            return False
    return True


def _read_all(lines, S0):
    """tokenize the whole buffer with the default token types; returns (entries, ok)"""
    root = bt.Document.__new__(bt.Document)
    root.footnotes = {}
    tokmod._root_node = root
    try:
        pb = btk.tokenize_block(lines, bt._token_types, start_line=S0)
        return [(t.__name__, _freeze(r), n) for t, r, n in pb], dict(root.footnotes)
    finally:
        tokmod._root_node = None
        bt.Paragraph.parse_setext = True


def _freeze(r):
    if isinstance(r, btk.ParseBuffer):
        return ('PB', r.loose, tuple((t.__name__, _freeze(x), n) for t, x, n in r))
    if isinstance(r, (list, tuple)):
        return tuple(_freeze(x) for x in r)
    if isinstance(r, bt.SetextHeading):
        return ('Setext', r.level)
    return r


@lemma('F1.frame', 'C05', quick=cells('rcell', [' \t', '#>-*+=|`~<[', '0123456789'], [{'frame': f, 'k': 1} for f in sorted(FRAMES)]),
       thorough=cells('rcell', [' \t', '#>-*+=|`~<[', '0123456789'], [{'frame': f, 'k': 1} for f in sorted(FRAMES)] + [{'frame': f, 'k': 2, 'timeout': 3000} for f in sorted(FRAMES)]
                      + [{'frame': f, 'k': 1, 'kr': 2, 'timeout': 3000} for f in sorted(FRAMES)]), timeout=900, per_path=90,
       covers=['block_tokenizer.py:tokenize_block', 'block_token.py:Paragraph.read', 'block_token.py:Heading.read',
               'block_token.py:ThematicBreak.read', 'block_token.py:Quote.read', 'block_token.py:Table.read'],
       note='A = skeleton with a symbolic hole (k code points over Σmd, no newline); the line after the blank line is fully symbolic '
            '(1 code point quick / 2 thorough): if the reader of A\'s last block looked past the blank line, the blocks of A would differ on some path')
def f1_frame(c1: int, c2: int, r1: int, r2: int) -> bool:
    """
    pre: all_ok(cp_md, P('k'), c1, c2) and no_nl(P('k'), c1, c2)
    pre: cell(r1, 'rcell') and all_ok(cp_md, P('kr', 1), r1, r2) and no_nl(P('kr', 1), r1, r2)
    post: _
    """
    x = S(P('k'), c1, c2)
    A = [ln.format(x) if '{}' in ln else ln for ln in FRAMES[P('frame')]]
    R = [S(P('kr', 1), r1, r2) + '\n']
    alone, fa = _read_all(A + ['\n'], 1)
    if fa:
        return True          # the property's side condition: A defines no link references
    if not alone or alone[-1][0] not in ('Paragraph', 'Heading', 'ThematicBreak', 'Quote', 'Table'):
        return True          # side condition: A ends in a closed block (evaluated on A's real parse)
    both, fb = _read_all(A + ['\n'] + R, 1)
    if both[:len(alone)] != alone:
        return False
    for name, res, line in both[len(alone):]:
        if line < len(A) + 2:
            return False
    return True


def defines_link(frame, k, c1, c2, c3):
    return False


@lemma('F3.pipeline', 'C05', quick=by('a1', list(ALPH14), [{'ka': 1, 'kb': 1}]) ,
       thorough=by('a1', list(ALPH14), [{'ka': 2, 'kb': 1, 'timeout': 3000}, {'ka': 1, 'kb': 2, 'timeout': 3000}]),
       timeout=600, per_path=90,
       covers=['block_token.py:Document.__init__', 'block_tokenizer.py:tokenize_block'],
       note='A, B over the 14-character alphabet; side conditions of the property as pre-conditions evaluated on the real parse of A')
def f3_pipeline(a1: int, a2: int, b1: int, b2: int) -> bool:
    """
    pre: fixed(a1, 'a1') and all_in(ALPH14, P('ka'), a1, a2) and all_in(ALPH14, P('kb'), b1, b2)
    post: _
    """
    from mistletoe import Document
    A = S(P('ka'), a1, a2)
    B = S(P('kb'), b1, b2)
    if not A.endswith('\n'):
        A = A + '\n'
    da = Document(A)
    db = Document(B)
    if da.footnotes or db.footnotes or not da.children:
        return True
    last = type(da.children[-1]).__name__
    if last not in ('Paragraph', 'Heading', 'SetextHeading', 'ThematicBreak', 'Quote', 'Table'):
        return True
    if A.endswith('\n\n') or A == '\n':
        return True
    dab = Document(A + '\n' + B)
    shift = A.count('\n') + 1
    want = [ast_of(t, True) for t in da.children] + [_shift(ast_of(t, True), shift) for t in db.children]
    return [ast_of(t, True) for t in dab.children] == want


def _shift(node, d):
    name, attrs, content, kids = node
    attrs = tuple((k, v + d if k == 'line_number' and v is not None else v) for k, v in attrs)
    return (name, attrs, content, None if kids is None else tuple(_shift(c, d) for c in kids))


@lemma('F2.shift', 'C05', timeout=300,
       covers=['block_tokenizer.py:tokenize_block', 'block_tokenizer.py:FileWrapper.line_number', 'block_token.py:Table.read',
               'block_token.py:Quote.read', 'block_token.py:ListItem.read'],
       note='(= C13-N1) every line number recorded for start line S equals the one for S=1 plus S-1, at every nesting level, for an UNBOUNDED symbolic S: B\'s blocks report line numbers shifted by the lines that precede B')
def f2_shift(S0: int, k: int) -> bool:
    """
    pre: 0 <= k <= 3
    post: _
    """
    from vfy.lemmas.c13 import shift_body          # (a helper without contract, see there)
    return shift_body(S0, k)


@lemma('F4.reader-scratch', 'C05', quick=[{'reader': r, 'k': k} for r in ('Heading', 'CodeFence') for k in (1, 2)] + [{'reader': 'Heading', 'k': 3}, {'reader': 'HtmlBlock', 'k': 1}],
       thorough=[{'reader': r, 'k': k} for r in ('Heading', 'CodeFence', 'HtmlBlock') for k in (1, 2, 3)] + [{'reader': 'Heading', 'k': 4}], timeout=600, per_path=60,
       covers=['block_token.py:Heading.start', 'block_token.py:Heading.read', 'block_token.py:CodeFence.start', 'block_token.py:CodeFence.read',
               'block_token.py:HtmlBlock.start', 'block_token.py:HtmlBlock.read'],
       note="(= C11-G1b) the per-class scratch state written by start() and consumed by read() cannot leak from a block of A into a block of B: "
            "a symbolic first line read once from an ARBITRARY symbolic scratch state and once from the fresh state gives the same start() verdict, read() result and cursor")
def f4_reader_scratch(c1: int, c2: int, c3: int, c4: int, level: int, s1: int, s2: int, oi0: int, endnone: bool) -> bool:
    """
    pre: scratch_pre(P('reader'), P('k'), c1, c2, c3, c4, s1, s2)
    post: _
    """
    from vfy.lemmas.c11 import reader_scratch_body          # (a helper without contract)
    return reader_scratch_body(c1, c2, c3, c4, level, s1, s2, oi0, endnone)


def scratch_pre(reader, k, c1, c2, c3, c4, s1, s2):
    from vfy.lemmas.c11 import HTML_ALPH, no_nl
    from vfy.lemmas.common import cp_ok
    ok = all_in(HTML_ALPH, k, c1, c2, c3, c4) if reader == 'HtmlBlock' else all_ok(cp_ok, k, c1, c2, c3, c4)
    return ok and no_nl(k, c1, c2, c3, c4) and cp_ok(s1) and cp_ok(s2)
