"""C09 -- Markdown round trip: same meaning, idempotent, exact on normal form.

Whole-document round trips are beyond symbolic reach; the claim is bounded accordingly:
M1 tiny documents, M2 inline exactness (span level), M3 container prefixes (all integers
ListItem.parse_marker can deliver), M4 documents already in the renderer's normal form.
"""
from vfy.lemma import lemma, P
from vfy.lemmas.common import S, all_in, ALPH14, by, fixed, cp_in
from mistletoe.markdown_renderer import MarkdownRenderer

ASSUMPTIONS = ['C09: the known-finding classes named in the property (character references, escapes in link destinations/titles, continuation lines indented >= 4) need >= 4 significant characters and lie outside the M1 bound: they are neither confirmed nor refuted here']
OUTSIDE = ['documents longer than 3 characters except the M4 skeletons', 'the spec corpus (C02 is not applicable to this technique)']

M1_ALPH = ALPH14 + '|=1.'


@lemma('M1.tiny', 'C09', quick=[{'k': 1}] + by('c1', list('a->#`[*_1|= \n'), [{'k': 2}]),
       thorough=[{'k': 1}] + by('c1', list(M1_ALPH), [{'k': 2}, {'k': 3, 'timeout': 5000}]), timeout=900, per_path=120,
       covers=['markdown_renderer.py:MarkdownRenderer.render', 'markdown_renderer.py:MarkdownRenderer.render_document',
               'markdown_renderer.py:MarkdownRenderer.blocks_to_lines', 'markdown_renderer.py:MarkdownRenderer.span_to_lines'],
       note='documents of k characters over the 18-character alphabet, normalize_whitespace symbolic: same HTML and link definitions after the round trip; rendering the result again reproduces it byte for byte')
def m1_tiny(c1: int, c2: int, c3: int, nw: bool) -> bool:
    """
    pre: fixed(c1, 'c1') and all_in(M1_ALPH, P('k'), c1, c2, c3)
    post: _
    """
    import mistletoe
    from mistletoe import Document
    from vfy.plug.stubs import install_quote
    install_quote()
    s = S(P('k'), c1, c2, c3)
    with MarkdownRenderer(normalize_whitespace=nw) as r:
        d1 = Document(s)
        t = r.render(d1)
    with MarkdownRenderer(normalize_whitespace=nw) as r:
        d2 = Document(t)
        t2 = r.render(d2)
    if mistletoe.markdown(t) != mistletoe.markdown(s):
        return False
    return Document(t).footnotes == Document(s).footnotes and t2 == t


M2_ALPH = 'a *_`[]()\\'


@lemma('M2.inline', 'C09', quick=[{'k': 1}, {'k': 2}] + by('c1', list('*`['), by('c2', list(M2_ALPH), [{'k': 3}])),
       thorough=[{'k': 1}, {'k': 2}] + by('c1', list(M2_ALPH), by('c2', list(M2_ALPH), [{'k': 3}])) + by('c1', list('*_`['), by('c2', list(M2_ALPH), [{'k': 4, 'timeout': 5000}])), timeout=900, per_path=90,
       covers=['markdown_renderer.py:MarkdownRenderer.span_to_lines', 'markdown_renderer.py:MarkdownRenderer.make_fragments',
               'markdown_renderer.py:MarkdownRenderer.fragments_to_lines', 'markdown_renderer.py:MarkdownRenderer.embed_span',
               'markdown_renderer.py:MarkdownRenderer.render_link_or_image', 'span_token.py:tokenize_inner'],
       note='inline strings of k characters over {a, space, *, _, `, [, ], (, ), backslash}: the fragments reproduce the source byte for byte (no wrapping)')
def m2_inline(c1: int, c2: int, c3: int, c4: int) -> bool:
    """
    pre: fixed(c1, 'c1') and fixed(c2, 'c2') and all_in(M2_ALPH, P('k'), c1, c2, c3, c4)
    post: _
    """
    from mistletoe import span_token, token as tokmod, block_token
    s = S(P('k'), c1, c2, c3, c4)
    root = block_token.Document.__new__(block_token.Document)
    root.footnotes = {}
    with MarkdownRenderer() as r:
        tokmod._root_node = root
        try:
            toks = span_token.tokenize_inner(s)
        finally:
            tokmod._root_node = None
        lines = list(r.span_to_lines(toks, max_line_length=None))
    return '\n'.join(lines) == s


class _Item:
    def __init__(self, leader, prepend, indentation):
        self.leader, self.prepend, self.indentation = leader, prepend, indentation
        self.children = []


def digits(k, *ds):
    for d in ds[:k]:
        if not (48 <= d <= 57):
            return False
    return True


@lemma('M3.prefixes', 'C09', quick=[{'kd': 0}, {'kd': 1}, {'kd': 2}], thorough=[{'kd': k} for k in range(0, 4)], timeout=900, per_path=60,
       stubs=['blocks_to_lines -> the given child lines', 'list item token built directly'],
       covers=['markdown_renderer.py:MarkdownRenderer.render_list_item', 'markdown_renderer.py:MarkdownRenderer.prefix_lines',
               'block_token.py:ListItem.parse_marker'],
       note='leader = bullet (kd=0) or kd symbolic digits + "." / ")"; indentation 0..3 and padding 1..4 symbolic; three child lines (second blank, third symbolic letter): '
            'first-line prefix has width prepend and carries the leader, following lines get prepend spaces, blank lines become empty, and ListItem.parse_marker on the emitted first line returns the same (indentation, prepend, leader)')
def m3_prefixes(d1: int, d2: int, d3: int, paren: bool, bullet: int, indentation: int, pad: int, ch: int, nw: bool) -> bool:
    """
    pre: digits(P('kd'), d1, d2, d3) and 0 <= bullet <= 2 and 0 <= indentation <= 3 and 1 <= pad <= 4 and 97 <= ch <= 122
    post: _
    """
    from mistletoe import block_token, span_token
    kd = P('kd')
    leader = '-+*'[bullet] if kd == 0 else S(kd, d1, d2, d3) + (')' if paren else '.')
    prepend = indentation + len(leader) + pad
    tok = _Item(leader, prepend, indentation)
    child = ['x', '', chr(ch)]
    try:
        r = MarkdownRenderer(normalize_whitespace=nw)
        r.blocks_to_lines = lambda tokens, max_line_length: list(child)
        lines = list(r.render_list_item(tok, max_line_length=None))
    finally:
        block_token.reset_tokens()
        span_token.reset_tokens()
    if len(lines) != 3:
        return False
    want_ind = 0 if nw else indentation
    want_pre = len(leader) + 1 if nw else prepend
    if lines[0] != ' ' * want_ind + leader + ' ' * (want_pre - want_ind - len(leader)) + 'x':
        return False
    if lines[1] != '' or lines[2] != ' ' * want_pre + chr(ch):
        return False
    got = block_token.ListItem.parse_marker(lines[0] + '\n')
    if got is None:
        return False
    gi, gp, gl, gc = got
    return gi == want_ind and gp == want_pre and gl == leader and gc == 'x\n'


NORMAL_FORMS = {
    'paragraphs': 'first {}\nsecond line\n\nthird\n', 'atx': '# {} one\n\n## two ##\n', 'setext': '{}\n===\n\nsub\n---\n',
    'emphasis': '*{}* **b** ~~c~~ `d`\n', 'links': '[{}](/u "t") ![i](/s) <http://x.y>\n', 'ref': '[{}][l] [l][] [l]\n\n[l]: /u "t"\n',
    'quote': '> {}\n> b\n', 'bullets': '- {}\n- b\n  c\n\n- d\n', 'ordered': '1. {}\n2. b\n', 'nested': '- a\n  - {}\n    > q\n',
    'fence': '```py\n{}\n```\n', 'indented': '    {}\n    b\n', 'thematic': '{}\n\n***\n',
    'html': '<div>\n{}\n</div>\n', 'hard-break': '{}  \nb\\\nc\n',
    'quote-hard-break': '> {}  \n> b\\\n> c\n', 'fence-blank': '```py\n{}\n\n```\n', 'fence-indented': '  ~~~\n  {}\n\n\n  ~~~\n',
    'quote-fence': '> ```\n> {} = 1  \n> ```\n', 'item-quote': '1. > {}  \n   > b\n',
    'quote-html-span': '> foo <a\n> href="{}">bar</a> baz\n', 'item-html-span': '- text <!-- {}\n  more --> end\n',
}


@lemma('M4.normal-form', 'C09', quick=[{'sk': s, 'nw': n} for s in sorted(NORMAL_FORMS) for n in (False, True)], timeout=900, per_path=120,
       covers=['markdown_renderer.py:MarkdownRenderer.render', 'markdown_renderer.py:MarkdownRenderer.render_quote',
               'markdown_renderer.py:MarkdownRenderer.render_list_item', 'markdown_renderer.py:MarkdownRenderer.render_fenced_code_block',
               'markdown_renderer.py:MarkdownRenderer.render_setext_heading', 'markdown_renderer.py:MarkdownRenderer.render_link_reference_definition_block'],
       note='documents already in the renderer normal form with one inert word (two symbolic lower-case letters), normalize_whitespace symbolic: reproduced byte for byte')
def m4_normal_form(a: int, b: int, nw: bool) -> bool:
    """
    pre: fixed(nw, 'nw') and 97 <= a <= 122 and 97 <= b <= 122
    post: _
    """
    import mistletoe
    from mistletoe import Document
    s = NORMAL_FORMS[P('sk')].format(chr(a) + chr(b))
    with MarkdownRenderer(normalize_whitespace=nw) as r:
        t = r.render(Document(s))
    # the skeletons use the spacing that normalize_whitespace would produce, so both settings must reproduce them
    return t == s and mistletoe.markdown(t) == mistletoe.markdown(s)


# ---------------------------------------------------------------------------------------- M5
# non-canonical spellings: the SAME symbolic character at two or three places of a construct's spelling
SP = ' -*_=#>+`~:|a1.)'
SPELLINGS = {
    'rule-under-para': 'a\n-{0}-{0}-\n', 'rule-alone': 'a\n\n*{0}*{0}*\n', 'atx-closing': '#{0}a{0}#\n', 'setext-underline': 'a\n{0}=={0}\n',
    'bullet-spacing': '-{0}a\n-{0}b\n', 'ordered-spacing': '1.{0}a\n2.{0}b\n', 'quote-spacing': '>{0}a\n>{0}b\n', 'fence-info': '```{0}x{0}\ncode\n```\n',
    'fence-indent': '{0}```\nx\n{0}```\n', 'table-delim': 'a|b\n{0}-|-{0}\nc|d\n', 'def-spacing': '[l]:{0}/u{0}"t"\n\n[l]\n', 'hard-break': 'a{0}{0}\nb\n',
    'code-span-pad': '`{0}a{0}` b\n', 'link-spacing': '[a]({0}/u{0}"t"{0})\n', 'para-indent': '{0}{0}a\nb\n', 'lazy-indent': '> a\n{0}{0}b\n',
    'item-indent': '- a\n\n{0}{0}b\n', 'emphasis-run': '{0}{0}a{0} b{0}\n', 'heading-hashes': '##{0} a {0}##\n', 'item-rule': '- a\n  -{0}-{0}-\n',
}


def round_trip_ok(s, nw, L=None):
    """clauses (a) and (b) of the property for one document: same HTML and link definitions; a second rendering is the identity"""
    import mistletoe
    from mistletoe import Document
    from mistletoe.html_renderer import HtmlRenderer
    kw = {'normalize_whitespace': nw}
    if L is not None:
        kw['max_line_length'] = L
    with MarkdownRenderer(**kw) as r:
        t = r.render(Document(s))
    with MarkdownRenderer(**kw) as r:
        t2 = r.render(Document(t))
    with HtmlRenderer() as h:
        d1, d2 = Document(s), Document(t)
        h1, h2 = h.render(d1), h.render(d2)
        f1, f2 = dict(d1.footnotes), dict(d2.footnotes)
    if L is not None:
        import re
        h1, h2 = re.sub(r'\s+', ' ', h1), re.sub(r'\s+', ' ', h2)
    return h1 == h2 and f1 == f2 and t2 == t


def describe_round_trip(s, nw, L=None):
    import mistletoe
    from mistletoe import Document
    kw = {'normalize_whitespace': nw}
    if L is not None:
        kw['max_line_length'] = L
    with MarkdownRenderer(**kw) as r:
        t = r.render(Document(s))
    with MarkdownRenderer(**kw) as r:
        t2 = r.render(Document(t))
    return ('MarkdownRenderer(**%r): %r -> %r -> %r; HTML of the source %r, of the rendering %r'
            % (kw, s, t, t2, mistletoe.markdown(s), mistletoe.markdown(t)))


def m5_replay(c1, nw):
    if chr(c1) not in SP or nw != P('nw'):
        return False, 'pre-condition false'
    s = SPELLINGS[P('sk')].format(chr(c1))
    try:
        ok = round_trip_ok(s, nw)
    except Exception as e:
        return True, 'round trip of %r raised %s: %s' % (s, type(e).__name__, e)
    return (not ok), describe_round_trip(s, nw)


@lemma('M5.spellings', 'C09', replay=m5_replay, quick=[{'sk': k, 'nw': n} for k in sorted(SPELLINGS) for n in (False, True)], timeout=900, per_path=120,
       covers=['markdown_renderer.py:MarkdownRenderer.render', 'markdown_renderer.py:MarkdownRenderer.render_thematic_break', 'markdown_renderer.py:MarkdownRenderer.render_heading',
               'markdown_renderer.py:MarkdownRenderer.render_setext_heading', 'markdown_renderer.py:MarkdownRenderer.render_list_item', 'markdown_renderer.py:MarkdownRenderer.render_table',
               'markdown_renderer.py:MarkdownRenderer.render_link_reference_definition'],
       note='one skeleton per construct with the SAME symbolic character (16-character spelling alphabet) at the two or three places where its spelling may vary, '
            'normalize_whitespace per job: identical HTML and link definitions after the round trip, second rendering is the identity')
def m5_spellings(c1: int, nw: bool) -> bool:
    """
    pre: fixed(nw, 'nw') and all_in(SP, 1, c1)
    post: _
    """
    return round_trip_ok(SPELLINGS[P('sk')].format(chr(c1)), nw)


LAYOUT = ' \na'


@lemma('M6.layout', 'C09', quick=by('c1', list(LAYOUT), [{'k': 4, 'nw': False}, {'k': 5, 'nw': False}]),
       thorough=by('c1', list(LAYOUT), [{'k': 4, 'nw': n} for n in (False, True)] + [{'k': 5, 'nw': n} for n in (False, True)] + [{'k': 6, 'nw': False, 'timeout': 3000}]),
       timeout=900, per_path=120,
       covers=['block_token.py:BlockCode.start', 'block_tokenizer.py:tokenize_block', 'markdown_renderer.py:MarkdownRenderer.render_block_code', 'markdown_renderer.py:MarkdownRenderer.blocks_to_lines'],
       note='documents of k = 4..6 characters over {space, newline, a}: indentation and blank-line layout only (what M1 cannot reach at 2-3 characters): same HTML and definitions after the round trip, second rendering is the identity')
def m6_layout(c1: int, c2: int, c3: int, c4: int, c5: int, c6: int, nw: bool) -> bool:
    """
    pre: fixed(c1, 'c1') and fixed(nw, 'nw') and all_in(LAYOUT, P('k'), c1, c2, c3, c4, c5, c6)
    post: _
    """
    return round_trip_ok(S(P('k'), c1, c2, c3, c4, c5, c6), nw)


def witness_empty_fence():
    """(fixed) an empty fenced code block gained a line in the round trip"""
    import mistletoe
    from mistletoe import Document
    with MarkdownRenderer() as r:
        t = r.render(Document('```\n```\n'))
    return mistletoe.markdown(t) != mistletoe.markdown('```\n```\n'), "Markdown round trip of an empty fence gives %r" % t


def witness_blank_indented_line():
    """(fixed) a whitespace-only line indented by four or more spaces started an indented code block; the round trip lost it"""
    import mistletoe
    from mistletoe import Document
    s = 'a\n\n    \n\nb\n'
    with MarkdownRenderer() as r:
        t = r.render(Document(s))
    h1, h2 = mistletoe.markdown(s), mistletoe.markdown(t)
    return h1 != h2 or '<pre>' in h1, "markdown(%r) = %r; after a Markdown round trip (%r): %r" % (s, h1, t, h2)
