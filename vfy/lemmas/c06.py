"""C06 -- emphasis nesting equals the specification's delimiter-run algorithm.

string --(scanner + flanking)--> delimiter stack --(process_emphasis)--> matches.
Differential against the reference model (vfy/ref/emphasis.py, validated against the spec's
emphasis examples on every run) at both levels:
  E-sets  : the character classes used for flanking equal the spec's (z3, all code points of Σmd)
  E-flank : Delimiter.open/close equal the spec's flanking rules for every pair of neighbours
  E-stack : process_emphasis on an ABSTRACT stack of k runs (symbolic kinds, lengths, flags)
  E-str   : find_core_tokens on every string over {a, space, *, _, .} up to N characters
"""
from vfy.lemma import lemma, rxlemma, P, Duck, Duck
from vfy.lemmas.common import S, all_in, by, fixed, cp_md, cp_ok
from vfy.ref import emphasis as E
from mistletoe import core_tokens as ct

ASSUMPTIONS = ['C06: reference model validated against the spec examples of section 6.2 that contain no other inline construct (count in the evidence)',
               'C06/E-stack: a delimiter stack is abstract (kind, length, can-open, can-close per run); every flag combination is realisable by a string, so no unreachable stack is included',
               'spec character classes are taken from unicodedata at run time and turned into code-point ranges']
OUTSIDE = ['strings longer than N that are not captured by a k-run stack', 'interaction with links, images and code spans (the alphabet has none)',
           'characters that are white space to Python only (XWS): the spec classes are compared on Σmd']

ALPH = 'a *_.'


def side_reference_validated():
    import os
    n, bad = E.validate(os.path.join(os.path.dirname(E.__file__), 'commonmark-0.30.json'))
    return (n >= 100 and not bad), 'reference model reproduces %d/%d applicable spec examples of section 6.2%s' % (n - len(bad), n, '' if not bad else ': ' + repr(bad[:2]))


SIDE_CONDITIONS = [side_reference_validated]


# ---------------------------------------------------------------------------------- E-sets (z3)

def _ranges(pred):
    out = []
    start = None
    for cp in range(0x110000 + 1):
        ok = cp < 0x110000 and pred(chr(cp))
        if ok and start is None:
            start = cp
        elif not ok and start is not None:
            out.append((start, cp - 1))
            start = None
    return out


def esets_replay(label, cp):
    ch = chr(cp)
    live_p = ch in ct.punctuation
    live_w = ch in ct.unicode_whitespace
    if label.startswith('punct'):
        return live_p != E.is_punctuation(ch), 'U+%04X: in core_tokens.punctuation=%s, spec punctuation=%s' % (cp, live_p, E.is_punctuation(ch))
    return live_w != E.is_unicode_whitespace(ch), 'U+%04X: in core_tokens.unicode_whitespace=%s, spec whitespace=%s' % (cp, live_w, E.is_unicode_whitespace(ch))


@rxlemma('E-sets', 'C06', covers=['core_tokens.py:punctuation', 'core_tokens.py:unicode_whitespace'], replay=esets_replay,
         note='for every code point c of Σmd: c in core_tokens.punctuation <=> spec punctuation; c in core_tokens.unicode_whitespace <=> spec Unicode whitespace (one z3 query each over an integer c)')
def e_sets():
    import time
    import z3
    from vfy.lemmas.common import cp_md
    res = {'verdict': 'CONFIRMED', 'queries': 0, 'solver_s': 0.0, 'detail': [], 'message': ''}
    c = z3.Int('c')

    def member(ranges):
        return z3.Or(*[z3.And(c >= lo, c <= hi) for lo, hi in ranges]) if ranges else z3.BoolVal(False)
    md = member(_ranges(lambda ch: cp_md(ord(ch))))
    for label, live, spec in (('punctuation', ct.punctuation, E.is_punctuation),
                              ('whitespace', ct.unicode_whitespace, E.is_unicode_whitespace)):
        live_set = set(live)
        a = member(_ranges(lambda ch: ch in live_set))
        b = member(_ranges(spec))
        s = z3.Solver()
        s.set('timeout', 60000)
        s.add(md, z3.Xor(a, b))
        t = time.time()
        r = s.check()
        dt = time.time() - t
        res['queries'] += 1
        res['solver_s'] += dt
        wit = s.model()[c].as_long() if r == z3.sat else None
        res['detail'].append({'query': label + ': live set == spec class on Σmd', 'result': str(r), 'witness': wit, 'solver_s': round(dt, 3)})
        if r == z3.sat and res['verdict'] != 'REFUTED':
            res.update(verdict='REFUTED', args=[label, wit], message='%s differs at U+%04X' % (label, wit))
        elif r != z3.unsat and res['verdict'] == 'CONFIRMED':
            res.update(verdict='UNKNOWN', message='solver said %s' % r)
        # non-vacuity: both classes are non-empty on Σmd
        s2 = z3.Solver()
        s2.add(md, a, b)
        res['queries'] += 1
        if s2.check() != z3.sat:
            res.update(verdict='UNKNOWN', message='vacuous: classes empty')
    return res


# --------------------------------------------------------------------------------- E-flank (E1)

_SPEC = {}


def spec_masks():
    if not _SPEC:      # built at import time (below), i.e. outside CrossHair's tracing
        chars_p = [chr(c) for c in range(0x110000) if E.is_punctuation(chr(c))]
        chars_w = [chr(c) for c in range(0x110000) if E.is_unicode_whitespace(chr(c))]
        try:
            from vfy.plug.maskset import MaskSet
            _SPEC['p'], _SPEC['w'] = MaskSet(chars_p), MaskSet(chars_w)
        except ImportError:
            _SPEC['p'], _SPEC['w'] = frozenset(chars_p), frozenset(chars_w)
    return _SPEC['p'], _SPEC['w']


spec_masks()


@lemma('E-flank', 'C06', quick=[{'n': n, 'star': s} for n in (1, 2, 3) for s in (True, False)], timeout=300,
       covers=['core_tokens.py:Delimiter.__init__', 'core_tokens.py:is_opener', 'core_tokens.py:is_closer',
               'core_tokens.py:is_left_delimiter', 'core_tokens.py:is_right_delimiter', 'core_tokens.py:preceded_by', 'core_tokens.py:succeeded_by'],
       note='string p + d^n + q with p, q symbolic code points over Σmd (and the run at the start / end of the string): Delimiter.open/close equal the spec flanking rules computed from the spec character classes')
def e_flank(p: int, q: int, has_p: bool, has_q: bool) -> bool:
    """
    pre: cp_md(p) and cp_md(q) and p != 42 and p != 95 and q != 42 and q != 95
    post: _
    """
    d = '*' if P('star') else '_'
    n = P('n')
    pre_s = chr(p) if has_p else ''
    post_s = chr(q) if has_q else ''
    s = pre_s + d * n + post_s
    dl = ct.Delimiter(len(pre_s), len(pre_s) + n, s)
    sp, sw = spec_masks()
    b = pre_s if has_p else ' '
    a = post_s if has_q else ' '
    ws_b, ws_a, pu_b, pu_a = b in sw, a in sw, b in sp, a in sp
    left = (not ws_a) and ((not pu_a) or ws_b or pu_b)
    right = (not ws_b) and ((not pu_b) or ws_a or pu_a)
    if d == '*':
        want = (left, right)
    else:
        want = (left and ((not right) or pu_b), right and ((not left) or pu_a))
    return (bool(dl.open), bool(dl.close)) == want and dl.number == n and dl.type == d * n


# --------------------------------------------------------------------------------- E-stack (E1)

class RunStr(Duck):
    """homogeneous string ch*n with (possibly symbolic) n: exact str semantics for what
    Delimiter / process_emphasis do with `.type` (index 0, slicing, startswith)"""
    def __init__(self, ch, n):
        self.ch, self.n = ch, n

    def __len__(self):
        return self.n

    def __getitem__(self, i):
        n = self.n
        if isinstance(i, slice):
            assert i.step is None
            lo = 0 if i.start is None else i.start
            hi = n if i.stop is None else i.stop
            if lo < 0:
                lo = max(n + lo, 0)
            if hi < 0:
                hi = max(n + hi, 0)
            lo = min(lo, n)
            hi = min(hi, n)
            return RunStr(self.ch, max(hi - lo, 0))
        if i < 0:
            i += n
        if not (0 <= i < n):
            raise IndexError('string index out of range')
        return self.ch

    def startswith(self, t):
        return self.n >= 1 and self.ch in t

    def __eq__(self, o):
        if isinstance(o, RunStr):
            return self.ch == o.ch and self.n == o.n
        return isinstance(o, str) and self.n == len(o) and all(c == self.ch for c in o)

    def __hash__(self):
        return 0


class AnyStr(Duck):
    def __getitem__(self, i):
        return 'x'


def mk_delim(idx, ch, n, op, cl):
    d = ct.Delimiter.__new__(ct.Delimiter)
    d.type = RunStr(ch, n)
    d.number = n
    d.active = True
    d.start = 100 * idx
    d.end = 100 * idx + n
    d.open = op
    d.close = cl
    # attributes a repaired Delimiter may carry: set by __init__ from (start, end)
    d.orig_number = n          # length of the run as written (set by Delimiter.__init__ from start/end)
    return d


def _abstract(runs):
    ds = [mk_delim(i, *r) for i, r in enumerate(runs)]
    matches = []
    ct.process_emphasis(AnyStr(), None, ds, matches)
    got = sorted((m.start(), m.end(), m.type == 'Strong') for m in matches)
    want = E.process([(ch, 100 * i, 100 * i + n, op, cl) for i, (ch, n, op, cl) in enumerate(runs)])
    return got, want


def _runs(k, kinds, ns, os_, ls):
    return [('*' if kinds[i] else '_', ns[i], os_[i], ls[i]) for i in range(k)]


def all_live(k, os_, ls):
    """with job parameter live=True every run can open or close: a run that can do neither never takes part,
    so stacks containing one are covered by the jobs with fewer runs"""
    if not P('live', False):
        return True
    for i in range(k):
        if not (os_[i] or ls[i]):
            return False
    return True


def _stack_parts(k):
    """partition by the kind vector (2^k cells)"""
    out = []
    for bits in range(2 ** k):
        out.append({'k': k, 'kinds': [bool(bits >> i & 1) for i in range(k)]})
    return out


@lemma('E-stack', 'C06', quick=_stack_parts(2) + [dict(p, M=2) for p in _stack_parts(3)] + [dict(p, M=2, live=True, timeout=1500) for p in _stack_parts(4)] + [dict(p, M=1, live=True) for p in _stack_parts(5)],
       thorough=_stack_parts(2) + [dict(p, M=7, timeout=5000) for p in _stack_parts(3)] + [dict(p, M=2, live=True, timeout=5000) for p in _stack_parts(4)]
       + [dict(p, M=2, live=True, timeout=5000) for p in _stack_parts(5)] + [dict(p, M=1, live=True, timeout=5000) for p in _stack_parts(6)],
       timeout=900, per_path=60,
       stubs=['Delimiter objects built directly (RunStr for .type, positions 100*i)', 'source string -> AnyStr (never influences control flow)'],
       covers=['core_tokens.py:process_emphasis', 'core_tokens.py:matching_opener', 'core_tokens.py:next_closer',
               'core_tokens.py:Delimiter.remove', 'core_tokens.py:Delimiter.closed_by'],
       note='k runs, each (kind, length in 1..M, can-open, can-close) symbolic (for k >= 5: runs that can neither open nor close are left to the smaller k); matches equal the reference algorithm; no exception')
def e_stack(n1: int, n2: int, n3: int, n4: int, n5: int, n6: int, o1: bool, o2: bool, o3: bool, o4: bool, o5: bool, o6: bool,
            l1: bool, l2: bool, l3: bool, l4: bool, l5: bool, l6: bool) -> bool:
    """
    pre: 1 <= n1 <= P('M', 9) and 1 <= n2 <= P('M', 9) and 1 <= n3 <= P('M', 9) and 1 <= n4 <= P('M', 9) and 1 <= n5 <= P('M', 9) and 1 <= n6 <= P('M', 9)
    pre: all_live(P('k'), [o1, o2, o3, o4, o5, o6], [l1, l2, l3, l4, l5, l6])
    post: _
    """
    k = P('k')
    kinds = P('kinds')
    runs = _runs(k, kinds, [n1, n2, n3, n4, n5, n6], [o1, o2, o3, o4, o5, o6], [l1, l2, l3, l4, l5, l6])
    got, want = _abstract(runs)
    return got == want


def concretise_stack(runs):
    """a string whose delimiter runs have exactly these (kind, length, can-open, can-close)"""
    parts = []
    for ch, n, op, cl in runs:
        if ch == '*':
            before, after = {(True, False): (' ', 'a'), (False, True): ('a', ' '), (True, True): ('a', 'a'), (False, False): (' ', ' ')}[(op, cl)]
        else:
            before, after = {(True, False): (' ', 'a'), (False, True): ('a', ' '), (True, True): ('.', '.'), (False, False): ('a', 'a')}[(op, cl)]
        parts.append(before + ch * n + after)
    return ''.join(parts)


def replay_stack(n1, n2, n3, n4, n5, n6, o1, o2, o3, o4, o5, o6, l1, l2, l3, l4, l5, l6):
    k = P('k')
    kinds = P('kinds')
    runs = _runs(k, kinds, [n1, n2, n3, n4, n5, n6], [o1, o2, o3, o4, o5, o6], [l1, l2, l3, l4, l5, l6])
    text = concretise_stack(runs)
    rs = E.runs(text)
    if [(r[0], r[2] - r[1], r[3], r[4]) for r in rs] != runs:
        return False, 'could not realise the abstract stack %r as a string (got %r from %r)' % (runs, rs, text)
    return replay_text(text)


def replay_text(text):
    import mistletoe
    want = E.matches(text)
    try:
        got = sorted((m.start(), m.end(), m.type == 'Strong') for m in ct.find_core_tokens(text, None))
    except Exception as e:
        return True, 'find_core_tokens(%r) raised %s: %s' % (text, type(e).__name__, e)
    try:
        html = mistletoe.markdown('# ' + text)
    except Exception as e:
        return True, 'markdown(%r) raised %s: %s' % ('# ' + text, type(e).__name__, e)
    import html as _h
    ref_html = '<h1>' + E.to_html(text.strip(), lambda c: _h.escape(c, quote=False)) + '</h1>\n'
    fails = got != want or (text == text.strip() and html != ref_html)
    return fails, 'text %r: mistletoe matches %r, spec algorithm %r; markdown(%r) = %r, reference %r' % (text, got, want, '# ' + text, html, ref_html)


e_stack.__lemma__.replay = replay_stack


# ----------------------------------------------------------------------------------- E-str (E1)

def ref_matches_alph(s):
    """the reference on the 5-character alphabet, with the character classes spelled out
    (unicodedata cannot be called on a symbolic character)"""
    out = []
    i = 0
    n = len(s)
    while i < n:
        c = s[i]
        if c == '*' or c == '_':
            j = i
            while j < n and s[j] == c:
                j += 1
            before = s[i - 1] if i > 0 else ' '
            after = s[j] if j < n else ' '
            ws_b, ws_a = before == ' ', after == ' '
            pu_b, pu_a = (before == '*' or before == '_' or before == '.'), (after == '*' or after == '_' or after == '.')
            left = (not ws_a) and ((not pu_a) or ws_b or pu_b)
            right = (not ws_b) and ((not pu_b) or ws_a or pu_a)
            if c == '*':
                op, cl = left, right
            else:
                op, cl = (left and ((not right) or pu_b)), (right and ((not left) or pu_a))
            out.append((c, i, j, op, cl))
            i = j
        else:
            i += 1
    return E.process(out)


def _str_parts_quick():
    return [{'k': 1}, {'k': 2}, {'k': 3}] + [{'k': 4, 'c1': a, 'c2': b} for a in '*_' for b in ALPH]


def _str_parts(N):
    """thorough: every string up to length 5, and length 6 for strings that start with a delimiter"""
    out = [{'k': k} for k in range(1, 4)]
    for k in range(4, N + 1):
        for a in (ALPH if k < 6 else '*_'):
            for b in ALPH:
                out.append({'k': k, 'c1': a, 'c2': b})
    return out


@lemma('E-str', 'C06', quick=_str_parts_quick(), thorough=[dict(p, timeout=5000) for p in _str_parts(6)], timeout=900, per_path=60,
       covers=['core_tokens.py:find_core_tokens', 'core_tokens.py:process_emphasis', 'core_tokens.py:Delimiter.__init__',
               'core_tokens.py:matching_opener', 'core_tokens.py:Delimiter.remove', 'core_tokens.py:Delimiter.closed_by'],
       note='every string over {a, space, *, _, .} of length k: same (start, end, kind) matches as the reference; no exception')
def e_str(c1: int, c2: int, c3: int, c4: int, c5: int, c6: int, c7: int) -> bool:
    """
    pre: fixed(c1, 'c1') and fixed(c2, 'c2') and all_in(ALPH, P('k'), c1, c2, c3, c4, c5, c6, c7)
    post: _
    """
    s = S(P('k'), c1, c2, c3, c4, c5, c6, c7)
    got = sorted((m.start(), m.end(), m.type == 'Strong') for m in ct.find_core_tokens(s, None))
    return got == ref_matches_alph(s)


def replay_str(c1, c2, c3, c4, c5, c6, c7):
    return replay_text(S(P('k'), c1, c2, c3, c4, c5, c6, c7))


e_str.__lemma__.replay = replay_str


# ----------------------------------------------------------------------------------- witnesses

def _w(text):
    fails, detail = replay_text(text)
    return fails, detail


def witness_remove_slice():
    """(fixed) Delimiter.remove kept type[:n] instead of type[:-n]: '**a****b*' raised IndexError"""
    return _w('**a****b*')


def witness_rule_of_three():
    """(fixed) rule of three applied to the remaining instead of the original run lengths"""
    return _w('____a a_a .___.')


def witness_opener_bottoms():
    """opener bottoms kept per character as stale list indexes instead of per (kind, can-open, length mod 3)"""
    return _w('**_*_*')
