"""C12 -- the token tree is well-formed and its generic views are faithful."""
import re
from vfy.lemma import lemma, rxlemma, P
from vfy.lemmas.common import S, cp_ok, cp_md, all_ok, all_in, ALPH14, by, fixed
from mistletoe import token as tokmod, block_token as bt, span_token as st
from mistletoe.utils import traverse

ASSUMPTIONS = ['C12/S1,S3: trees are given as parent vectors over <= 6 nodes (all shapes, including shapes no parse produces: the utilities are specified for any tree)',
               'json.dumps/json.loads are C-level: S3 compares get_ast() dictionaries symbolically and round-trips them through json on the realised values']
OUTSIDE = ['trees of real documents beyond the S5 sweep', 'trees with more than 6 nodes in S1/S3']


class A(tokmod.Token):
    pass


class B(tokmod.Token):
    pass


def build(n, parents, kinds, as_tuple):
    """nodes[0] is the root; parents[i-1] < i is the parent of node i"""
    nodes = []
    kids = [[] for _ in range(n)]
    for i in range(n):
        nodes.append((A if kinds[i] else B)())
    for i in range(1, n):
        kids[parents[i - 1]].append(nodes[i])
    for i in range(n):
        if kids[i]:
            nodes[i].children = tuple(kids[i]) if as_tuple else kids[i]
    return nodes, kids


def parents_ok(n, ps):
    for i in range(1, n):
        if not (0 <= ps[i - 1] < i):
            return False
    return True


@lemma('S1.traverse', 'C12', quick=[{'n': n} for n in (1, 2, 3)] + [{'n': 4, 'filt': f, 'src': i, 'tup': t} for f in (0, 1, 2) for i in (False, True) for t in (False, True)],
       thorough=[{'n': n} for n in (1, 2, 3)] + [{'n': n, 'filt': f, 'src': i, 'tup': t, 'timeout': 6000} for n in (4, 5) for f in (0, 1, 2) for i in (False, True) for t in (False, True)], timeout=900, per_path=60,
       covers=['utils.py:traverse', 'token.py:Token.children'],
       note='all tree shapes over n nodes (parent vector), node classes, children as list or tuple, klass filter, depth limit (unbounded int or None), include_source')
def s1_traverse(p1: int, p2: int, p3: int, p4: int, p5: int, k0: bool, k1: bool, k2: bool, k3: bool, k4: bool, k5: bool,
                as_tuple: bool, filt: int, depth: int, nodepth: bool, include_source: bool) -> bool:
    """
    pre: fixed(filt, 'filt') and fixed(include_source, 'src') and fixed(as_tuple, 'tup') and parents_ok(P('n'), [p1, p2, p3, p4, p5]) and 0 <= filt <= 2
    post: _
    """
    n = P('n')
    ps = [p1, p2, p3, p4, p5]
    nodes, kids = build(n, ps, [k0, k1, k2, k3, k4, k5], as_tuple)
    klass = [None, A, B][filt]
    limit = None if nodepth else depth
    got = list(traverse(nodes[0], klass=klass, depth=limit, include_source=include_source))
    # independent breadth-first oracle
    dep = [0] * n
    par = [None] * n
    for i in range(1, n):
        dep[i] = dep[ps[i - 1]] + 1
        par[i] = nodes[ps[i - 1]]
    order = []
    level = [0]
    while level:
        nxt = []
        for i in level:
            order.append(i)
            for j in range(1, n):
                if ps[j - 1] == i:
                    nxt.append(j)
        level = nxt
    want = []
    for i in order:
        if i == 0 and not include_source:
            continue
        if limit is not None and dep[i] > limit and i != 0:
            continue
        if klass is not None and not isinstance(nodes[i], klass):
            continue
        want.append((nodes[i], par[i], dep[i]))
    if len(got) != len(want):
        return False
    for g, w in zip(got, want):
        if g.node is not w[0] or g.parent is not w[1] or g.depth != w[2]:
            return False
    return True


@lemma('S2.parent-stamping', 'C12', quick=[{'n': 4}], timeout=300,
       covers=['token.py:Token.children', 'token.py:Token.parent'],
       note='Token.children = v stamps the parent of each element for list and tuple v, leaves None/empty alone; re-assignment moves the link')
def s2_parent(p1: int, p2: int, p3: int, as_tuple: bool, k0: bool, k1: bool, k2: bool, k3: bool, reassign: bool) -> bool:
    """
    pre: parents_ok(4, [p1, p2, p3])
    post: _
    """
    nodes, kids = build(4, [p1, p2, p3, 0, 0], [k0, k1, k2, k3, True, True], as_tuple)
    if nodes[0].parent is not None:
        return False
    for i in range(4):
        c = nodes[i].children
        if not kids[i]:
            if c is not None:
                return False
            continue
        if len(c) != len(kids[i]):
            return False
        for a, b in zip(c, kids[i]):
            if a is not b or a.parent is not nodes[i]:
                return False
    if reassign:
        other = A()
        other.children = [nodes[3]]
        if nodes[3].parent is not other:
            return False
        leaf = B()
        leaf.children = []
        if leaf.children != [] or leaf.parent is not None:
            return False
    return True


@lemma('S3.ast-mirror', 'C12', quick=[{'k': 1}, {'k': 2}], timeout=400,
       covers=['ast_renderer.py:get_ast', 'ast_renderer.py:AstRenderer.render'],
       note='real token classes built directly with symbolic scalar attributes; get_ast mirrors type, repr_attributes, content, header, children order')
def s3_ast(c1: int, c2: int, level: int, loose: bool, start: int, ordered: bool, align: int, soft: bool) -> bool:
    """
    pre: all_ok(cp_ok, P('k'), c1, c2) and -1 <= align <= 1
    post: _
    """
    from mistletoe.ast_renderer import get_ast, AstRenderer
    from vfy.lemmas.c08 import mk, raw
    txt = S(P('k'), c1, c2)
    al = None if align < 0 else align
    cell = mk(bt.TableCell, align=al, line_number=3, children=[raw(txt)])
    row = mk(bt.TableRow, row_align=[al], line_number=3, children=[cell])
    table = mk(bt.Table, column_align=[al], line_number=1, children=[row], header=row)
    link = mk(st.Link, target=txt, title=txt, children=[raw('x'), mk(st.LineBreak, soft=soft, content='')])
    item = mk(bt.ListItem, leader='-', indentation=0, prepend=2, loose=loose, line_number=5,
              children=[mk(bt.Paragraph, line_number=5, children=[link])])
    lst = mk(bt.List, loose=loose, start=start if ordered else None, line_number=5, children=[item])
    head = mk(bt.Heading, level=level, line_number=9, children=[raw(txt)])
    doc = mk(bt.Document, line_number=1, footnotes={'k': (txt, txt)}, children=[table, lst, head])
    ast = get_ast(doc)
    want = {'type': 'Document', 'footnotes': {'k': (txt, txt)}, 'line_number': 1, 'children': [
        {'type': 'Table', 'line_number': 1, 'column_align': [al],
         'header': {'type': 'TableRow', 'line_number': 3, 'row_align': [al], 'children': [
             {'type': 'TableCell', 'line_number': 3, 'align': al, 'children': [{'type': 'RawText', 'content': txt}]}]},
         'children': [{'type': 'TableRow', 'line_number': 3, 'row_align': [al], 'children': [
             {'type': 'TableCell', 'line_number': 3, 'align': al, 'children': [{'type': 'RawText', 'content': txt}]}]}]},
        {'type': 'List', 'line_number': 5, 'loose': loose, 'start': start if ordered else None, 'children': [
            {'type': 'ListItem', 'line_number': 5, 'leader': '-', 'indentation': 0, 'prepend': 2, 'loose': loose, 'children': [
                {'type': 'Paragraph', 'line_number': 5, 'children': [
                    {'type': 'Link', 'target': txt, 'title': txt, 'children': [
                        {'type': 'RawText', 'content': 'x'}, {'type': 'LineBreak', 'content': '', 'soft': soft}]}]}]}]},
        {'type': 'Heading', 'line_number': 9, 'level': level, 'children': [{'type': 'RawText', 'content': txt}]},
    ]}
    if ast != want:
        return False
    # key order: 'type' first (documented MDAST-like layout)
    return list(ast)[0] == 'type'


def s4_replay(label, witness):
    pat = bt.Heading.pattern
    m = pat.match(witness)
    if m is None:
        return False, 'pattern does not match %r' % witness
    n = len(m.group(1))
    return not (1 <= n <= 6), 'Heading.pattern.match(%r).group(1) has length %d' % (witness, n)


@rxlemma('S4.heading-level', 'C12', covers=['block_token.py:Heading.pattern', 'block_token.py:Heading.start'], replay=s4_replay,
         note='every line (any length) accepted by Heading.pattern starts, after <= 3 spaces, with 1..6 # followed by a non-#: so len(group 1) is within 1..6')
def s4_heading_level():
    from vfy import rx
    S_ = rx.Session()
    impl = rx.match_language(bt.Heading.pattern)
    S_.validate('Heading', bt.Heading.pattern, impl, rx.sample_lines(200))
    shape = rx.match_language(r' {0,3}#{1,6}(?:[^#]|$)')
    S_.expect_sat('Heading:impl', *rx.nonempty(impl, rx.LINE))
    S_.expect_unsat('Heading:level-in-1..6', *rx.included(impl, shape, rx.LINE))
    seven = rx.match_language(r' {0,3}#{7}')
    S_.expect_unsat('Heading:no-seven-hashes', *rx.nonempty(z3and(impl, seven), rx.LINE))
    return S_.result()


def z3and(a, b):
    import z3
    return z3.Intersect(a, b)


def digits_ok(k, *cs):
    for c in cs[:k]:
        if not (48 <= c <= 57):
            return False
    return True


@lemma('S4.scalars', 'C12', quick=[{'k': k, 'bullet': b} for k in (1, 2) for b in (0, 1, 2)], thorough=[{'k': k} for k in range(1, 10)], timeout=600, per_path=90,
       covers=['block_token.py:List.__init__', 'block_token.py:ListItem.parse_marker', 'block_token.py:SetextHeading.__init__',
               'block_token.py:Heading.start'],
       note='ordered list: start == int(digits of the first marker) for every digit string of length k; bullet list: start is None; setext level in {1,2}; heading level in 1..6')
def s4_scalars(d1: int, d2: int, d3: int, d4: int, d5: int, d6: int, d7: int, d8: int, d9: int, paren: bool, bullet: int,
               eq: bool, hashes: int) -> bool:
    """
    pre: fixed(bullet, 'bullet') and digits_ok(P('k'), d1, d2, d3, d4, d5, d6, d7, d8, d9) and 0 <= bullet <= 2 and 1 <= hashes <= 6
    post: _
    """
    from mistletoe import Document
    digits = S(P('k'), d1, d2, d3, d4, d5, d6, d7, d8, d9)
    marker = digits + (')' if paren else '.')
    doc = Document([marker + ' a\n', '\n', '-+*'[bullet] + ' b\n', '\n', 't\n', ('=' if eq else '-') * 3 + '\n', '#' * hashes + ' h\n'])
    kinds = [type(c).__name__ for c in doc.children]
    if kinds != ['List', 'List', 'SetextHeading', 'Heading']:
        return False
    ol, ul, sh, h = doc.children
    if ol.start is None or ul.start is not None:
        return False
    # int(digits) without calling int() on a symbolic string: compare decimal expansions
    val = 0
    for ch in digits:
        val = val * 10 + (ord(ch) - 48)
    if ol.start != val:
        return False
    if ol.children[0].leader != marker or ul.children[0].leader != '-+*'[bullet]:
        return False
    return sh.level == (1 if eq else 2) and h.level == hashes


# ------------------------------------------------------------------------- S5 whole pipeline

BLOCK_CONTAINERS = {'Document': None, 'Quote': None, 'ListItem': None}
LEAF_INLINE = ('Paragraph', 'Heading', 'SetextHeading', 'TableCell')
RAW_SINGLE = ('BlockCode', 'CodeFence', 'HtmlBlock')


def tree_ok(node, parent, depth=0):
    """the object-graph invariants of the property"""
    name = type(node).__name__
    if parent is not None and node.parent is not parent:
        return False
    kids = node.children
    isblock = isinstance(node, bt.BlockToken)
    if name == 'Heading' and not (1 <= node.level <= 6):
        return False
    if name == 'SetextHeading' and node.level not in (1, 2):
        return False
    if name == 'List':
        if not kids:
            return False
        for c in kids:
            if type(c).__name__ != 'ListItem':
                return False
        lead = kids[0].leader
        if len(lead) == 1:
            if node.start is not None:
                return False
        else:
            if node.start is None or str(node.start).lstrip('0') != lead[:-1].lstrip('0'):
                return False
    if name == 'Table':
        hdr = getattr(node, 'header', None)
        rows = list(kids) + ([hdr] if hdr is not None else [])
        for c in rows:
            if type(c).__name__ != 'TableRow':
                return False
        if hdr is not None and not tree_ok(hdr, None, depth + 1):
            return False
    if name == 'TableRow':
        for c in kids:
            if type(c).__name__ != 'TableCell':
                return False
    if name in RAW_SINGLE:
        if len(kids) != 1 or type(kids[0]).__name__ != 'RawText':
            return False
    if kids is None:
        return True
    for c in kids:
        cblock = isinstance(c, bt.BlockToken)
        if not isblock and cblock:
            return False            # inline tokens never contain block tokens
        if name in LEAF_INLINE and cblock:
            return False
        if name in ('Document', 'Quote', 'ListItem') and not cblock:
            return False
        if not tree_ok(c, node, depth + 1):
            return False
    return True


def traverse_ok(doc):
    seen = []
    for res in traverse(doc, include_source=True):
        for s in seen:
            if s is res.node:
                return False
        seen.append(res.node)
        if res.node is not doc and res.node.parent is not res.parent:
            return False
    return True


def _token_sets():
    from mistletoe.html_renderer import HtmlRenderer
    from mistletoe.markdown_renderer import MarkdownRenderer
    from mistletoe.latex_renderer import LaTeXRenderer
    from mistletoe.contrib.xwiki20_renderer import XWiki20Renderer
    return {'html': HtmlRenderer, 'markdown': MarkdownRenderer, 'latex': LaTeXRenderer, 'xwiki': XWiki20Renderer}


@lemma('S5.pipeline', 'C12',
       quick=[{'k': 1, 'sigma': True, 'set': s} for s in ('html', 'markdown', 'latex', 'xwiki')] + by('c1', list('->#|`['), [{'k': 2, 'sigma': False, 'set': 'html'}]),
       thorough=[{'k': 1, 'sigma': True, 'set': s} for s in ('html', 'markdown', 'latex', 'xwiki')]
       + by('c1', list(ALPH14 + '|1.'), [{'k': 2, 'sigma': False, 'set': s} for s in ('html', 'markdown', 'latex', 'xwiki')])
       + by('c1', list(ALPH14 + '|1.'), [{'k': 3, 'sigma': False, 'set': 'html', 'timeout': 3000}]),
       timeout=600, per_path=90,
       covers=['block_token.py:Document.__init__', 'block_tokenizer.py:make_tokens', 'span_tokenizer.py:make_tokens', 'utils.py:traverse',
               'ast_renderer.py:get_ast'],
       note='whole parse under the token sets of the Html, Markdown, LaTeX and XWiki renderers: parent links, child kinds, scalar ranges, traverse yields each token once, get_ast mirrors the tree')
def s5_pipeline(c1: int, c2: int, c3: int) -> bool:
    """
    pre: fixed(c1, 'c1') and (all_ok(cp_md, P('k'), c1, c2, c3) if P('sigma') else all_in(S5_ALPH, P('k'), c1, c2, c3))
    post: _
    """
    from mistletoe import Document
    from mistletoe.ast_renderer import get_ast
    s = S(P('k'), c1, c2, c3)
    with _token_sets()[P('set')]():
        doc = Document(s)
    if not tree_ok(doc, None) or not traverse_ok(doc):
        return False
    ast = get_ast(doc)
    if not mirror_ok(doc, ast):
        return False
    if not P('sigma'):
        # finite alphabet: the JSON text can be produced on realised values and read back
        import json
        from mistletoe.ast_renderer import AstRenderer
        with AstRenderer() as r:
            text = r.render(doc)
        back = json.loads(text)
        return json_mirror(ast, back)
    return True


def json_mirror(ast, back):
    """the parsed JSON equals the attribute dictionary (tuples come back as lists)"""
    if isinstance(ast, dict):
        if not isinstance(back, dict) or list(ast) != list(back):
            return False
        for k in ast:
            if not json_mirror(ast[k], back[k]):
                return False
        return True
    if isinstance(ast, (list, tuple)):
        if not isinstance(back, list) or len(ast) != len(back):
            return False
        for a, b in zip(ast, back):
            if not json_mirror(a, b):
                return False
        return True
    return ast == back


S5_ALPH = ALPH14 + '|1.'


def mirror_ok(tok, ast):
    if ast.get('type') != type(tok).__name__:
        return False
    for k in tok.repr_attributes:
        if k not in ast or ast[k] != getattr(tok, k):
            return False
    if 'content' in vars(tok) and ast.get('content') != tok.content:
        return False
    kids = tok.children
    if kids is None:
        return 'children' not in ast
    if 'children' not in ast or len(ast['children']) != len(kids):
        return False
    for c, a in zip(kids, ast['children']):
        if not mirror_ok(c, a):
            return False
    return True


S5_SKELETONS = {
    'table-short-row': '| a | b | c |\n|---|:-:|--:|\n| {} | 2 |\n', 'table-long-row': '| a |\n|---|\n| {} | 2 | 3 |\n', 'table-short-header': '| {} |\n|---|---|\n| 1 | 2 |\n',
    'setext-in-item': '- {}\n  ===\n- b\n', 'code-in-quote': '> ```\n> {}\n> ```\n>\n>     x\n', 'html-block': '<div>\n{}\n</div>\n\np <b>i</b>\n',
    'nested': '1. a\n   - {}\n     > q\n2. c\n', 'inline-emph': '*a **{}** `c`* ~~d~~\n', 'inline-links': '[{}](/u "t") ![i](/s) <http://x.y>\n', 'inline-breaks': 'a \\* {}  \nf\ng\n',
    'empty-containers': '>\n\n-\n\n#\n\n{}\n', 'ref-links': '[{}][l] [l][] [l]\n\n[l]: /u "t"\n',
    # the SAME content twice in one document (a token, leaf or result shared between two places is not a tree)
    'twice-escape': '\\{0} and \\{0}\n\n\\{0}\n', 'twice-text': '*a{0}* *a{0}*\n\na{0}\n', 'twice-code': '`{0}x` `{0}x`\n\n    {0}x\n\n    {0}x\n',
    'twice-cell': '|{0}|{0}|\n|-|-|\n|{0}|{0}|\n', 'twice-item': '- {0}\n- {0}\n\n> {0}\n\n> {0}\n', 'twice-link': '[{0}](/u) [{0}](/u) <http://{0}> <http://{0}>\n',
}


@lemma('S5.skeletons', 'C12', quick=[{'sk': s, 'set': 'html'} for s in sorted(S5_SKELETONS)],
       thorough=[{'sk': s, 'set': t} for s in sorted(S5_SKELETONS) for t in ('html', 'markdown', 'latex', 'xwiki')], timeout=600, per_path=120,
       covers=['block_token.py:Table.__init__', 'block_token.py:TableRow.__init__', 'block_token.py:TableCell.__init__', 'block_token.py:List.__init__',
               'block_token.py:ListItem.__init__', 'block_token.py:CodeFence.__init__', 'block_token.py:HtmlBlock.__init__', 'span_tokenizer.py:ParseToken.make', 'token.py:Token.children'],
       note='one skeleton per constructor path that chooses child kinds (table rows shorter / longer than the column count, header row, setext heading replacing a paragraph inside an item, code in a quote, HTML block, nested lists, every inline token, empty containers) with ONE symbolic character over Σmd (or nothing): the object-graph invariants, traverse and the AST mirror')
def s5_skeletons(c1: int, has: bool) -> bool:
    """
    pre: cp_md(c1) and c1 != 10
    post: _
    """
    from mistletoe import Document
    from mistletoe.ast_renderer import get_ast
    s = S5_SKELETONS[P('sk')].format(chr(c1) if has else '')
    with _token_sets()[P('set')]():
        doc = Document(s)
    return tree_ok(doc, None) and traverse_ok(doc) and mirror_ok(doc, get_ast(doc))
