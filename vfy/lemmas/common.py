"""Shared vocabulary of the lemma modules (DESIGN.md section 3). No crosshair import."""
import vfy.lemma as L
from vfy.lemma import P

# XWS: white space / line ends to Python (str.strip, str.split, \s, splitlines) but not to CommonMark
XWS = '\x0b\x0c\r\x1c\x1d\x1e\x1f\x85\xa0                　'
# 14 Markdown-significant ASCII characters for the tiny whole-pipeline sweeps
ALPH14 = 'a \n*_`[]()>-#\\'
ALPH_INLINE = 'a *_`[]()\\'


def in_alphabet(s, alphabet):
    for c in s:
        if c not in alphabet:
            return False
    return True


def is_md(s):
    """s lies in Σmd* (no character that only Python treats as white space)"""
    for c in s:
        if c in XWS:
            return False
    return True


def part(s, prefix=''):
    """Partition predicate: job parameters '<prefix>len' (exact length) and '<prefix>c0'
    (first character: a literal character, or 'other:<chars>' = none of <chars>) select one
    cell of a disjoint cover of the input space; absent parameters select everything."""
    n = P(prefix + 'len', -1)
    if n != -1 and len(s) != n:
        return False
    c0 = P(prefix + 'c0', '')
    if c0 == '':
        return True
    if len(s) == 0:
        return False
    if c0.startswith('other:'):
        return s[0] not in c0[6:]
    return s[0] == c0


def parts_len_first(N, specials, prefix='', **extra):
    """Disjoint, exhaustive cover of {s : len(s) <= N}: one cell per length < N, and for
    length N one cell per listed first character plus 'none of them'."""
    out = []
    for k in range(0, N):
        out.append(dict(extra, **{'N': N, prefix + 'len': k}))
    if N >= 1:
        for c in specials:
            out.append(dict(extra, **{'N': N, prefix + 'len': N, prefix + 'c0': c}))
        out.append(dict(extra, **{'N': N, prefix + 'len': N, prefix + 'c0': 'other:' + ''.join(specials)}))
    else:
        out.append(dict(extra, **{'N': 0, prefix + 'len': 0}))
    return out


def parts_alphabet(N, alphabet, **extra):
    """cover of alphabet^<=N: lengths < N, and for length N one cell per first character"""
    out = [dict(extra, N=N, len=k) for k in range(0, N)]
    if N >= 1:
        out += [dict(extra, N=N, len=N, c0=c) for c in alphabet]
    return out


def reset_parser_state():
    """fresh-interpreter values of every piece of global parser state"""
    import html
    from mistletoe import block_token, span_token, core_tokens, token, span_tokenizer
    block_token.reset_tokens()
    span_token.reset_tokens()
    core_tokens._code_matches = []
    block_token.Paragraph.parse_setext = True
    token._root_node = None
    html._charref = span_tokenizer._stdlib_charref
    block_token.Table.interrupt_paragraph = True


def ast_of(token, with_lines=False):
    """structural dump of a token tree: (type, attributes, content, children)"""
    attrs = []
    for k in getattr(token, 'repr_attributes', ()):
        if k == 'line_number' and not with_lines:
            continue
        attrs.append((k, getattr(token, k, None)))
    content = token.content if 'content' in vars(token) else None
    kids = token.children
    return (type(token).__name__, tuple(attrs), content,
            None if kids is None else tuple(ast_of(c, with_lines) for c in kids))


# ---- symbolic strings of CONCRETE length, built from symbolic code points -------------------
# (CrossHair explores far fewer paths when the length of a string is concrete: positions in
#  concatenated output are then concrete and only the characters themselves are symbolic)

def cp_ok(c):
    """a Unicode scalar value (no lone surrogate)"""
    return 0 <= c <= 0x10FFFF and not (0xD800 <= c <= 0xDFFF)


_XWS_CODES = sorted(ord(c) for c in XWS)


def cp_md(c):
    """a code point of Σmd: scalar value that is not Python-only white space"""
    if not cp_ok(c):
        return False
    if c == 0x0b or c == 0x0c or c == 0x0d or (0x1c <= c <= 0x1f) or c == 0x85 or c == 0xa0:
        return False
    if c == 0x1680 or (0x2000 <= c <= 0x200a) or c == 0x2028 or c == 0x2029 or c == 0x202f or c == 0x205f or c == 0x3000:
        return False
    return True


def cp_in(c, alphabet):
    for a in alphabet:
        if c == ord(a):
            return True
    return False


def S(k, *cps):
    """the string of the first k code points"""
    return ''.join([chr(c) for c in cps[:k]])


def all_ok(pred, k, *cps):
    for c in cps[:k]:
        if not pred(c):
            return False
    return True


def all_in(alphabet, k, *cps):
    for c in cps[:k]:
        if not cp_in(c, alphabet):
            return False
    return True


def ks(N, **extra):
    """one job per exact length 0..N"""
    return [dict(extra, k=k) for k in range(N + 1)]


def fixed(value, name):
    """partition on an option / first code point: absent parameter = unconstrained"""
    want = P(name, '\0any')
    if want == '\0any':
        return True
    if isinstance(want, str) and not isinstance(value, bool):
        return value == ord(want)
    return value == want


def by(name, values, base):
    """base parameter dicts x one job per value of `name`"""
    return [dict(b, **{name: v}) for b in base for v in values]


def concretise_cp(c, alphabet):
    """force the solver to pick the character (one path per member of a finite alphabet); used where the
    code under test calls C-level string functions (casefold, json) that CrossHair cannot model"""
    for a in alphabet:
        if c == ord(a):
            return ord(a)
    return c


def SC(k, alphabet, *cps):
    """like S(), with every code point concretised over the finite alphabet"""
    return ''.join([chr(concretise_cp(c, alphabet)) for c in cps[:k]])


def cell(c, name):
    """partition on one code point: job parameter <name> = ['in', chars] or ['notin', chars]; absent = unconstrained.
    A job list that uses ['in', X1], ..., ['in', Xn], ['notin', X1+...+Xn] covers every code point exactly once."""
    spec = P(name, None) if name in L.PARAMS else None
    if spec is None:
        return True
    kind, chars = spec
    hit = False
    for a in chars:
        if c == ord(a):
            hit = True
    return hit if kind == 'in' else not hit


def cells(name, groups, base):
    """base x (one cell per group of characters + the complement of all of them)"""
    allc = ''.join(groups)
    out = []
    for b in base:
        for g in groups:
            out.append(dict(b, **{name: ['in', g]}))
        out.append(dict(b, **{name: ['notin', allc]}))
    return out
