"""C04 -- quoting or list-indenting any document wraps its parse unchanged.

Document(embed(T)) dispatches its first line to Quote / List (Q3); the container reader consumes
exactly the embedded lines and hands block_tokenizer.tokenize_block a line buffer equal to T's
lines, with the parent's start line (Q1, Q2); the nested call is the same function on the same
lines, hence yields B, provided global parser state is the same (C11) -- observed directly on
skeletons (Q5) and end-to-end on tiny documents (Q4).
"""
from vfy.lemma import lemma, rxlemma, P, give_up
from vfy.lemmas.common import S, cp_md, all_ok, all_in, ALPH14, by, fixed, ast_of
from mistletoe import block_token as bt, block_tokenizer as btk, token as tokmod

ASSUMPTIONS = ['C04/Q1,Q2: block_tokenizer.tokenize_block is replaced by a recorder to observe what a container reader hands down',
               'tabs are excluded (the property quantifies over texts without tabs)']
OUTSIDE = ['documents of more than 3 lines except by the per-line argument', 'lazy continuation (the law embeds every line)', 'tabs']


def no_nl_tab(k, *cps):
    for c in cps[:k]:
        if c == 10 or c == 9:
            return False
    return True


def _record(token_type, lines, start_line):
    """run the container's reader AND constructor with tokenize_block replaced by a recorder: the
    hand-off is observed wherever the implementation chooses to do it (read() today)"""
    cap = []
    orig = btk.tokenize_block

    def fake(ls, token_types, start_line=1):
        cap.append((list(ls), start_line))
        return btk.ParseBuffer()
    btk.tokenize_block = fake
    try:
        fw = btk.FileWrapper(lines, start_line=start_line)
        res = token_type.read(fw)
        tok = token_type(res)
    finally:
        btk.tokenize_block = orig
        bt.Paragraph.parse_setext = True
    return cap, fw, tok


# ---------------------------------------------------------------------------------------- Q1

@lemma('Q1.quote-handoff', 'C04', quick=[{'k': k, 'pos': p, 'sp': sp} for k in (0, 1, 2) for p in (0, 1, 2) for sp in (True, False)],
       thorough=[{'k': k, 'pos': p, 'sp': sp} for k in (0, 1, 2, 3) for p in (0, 1, 2) for sp in (True, False)], timeout=900, per_path=90,
       stubs=['block_tokenizer.tokenize_block -> recorder'],
       covers=['block_token.py:Quote.read', 'block_token.py:Quote.convert_leading_tabs', 'block_tokenizer.py:FileWrapper.line_number'],
       note="three quoted lines, the one at position pos symbolic (k code points over Σmd, no tab/newline), marker '> ' or '>' (then the line does not start with a space); start line unbounded")
def q1_quote(c1: int, c2: int, c3: int, start: int) -> bool:
    """
    pre: all_ok(cp_md, P('k'), c1, c2, c3) and no_nl_tab(P('k'), c1, c2, c3)
    pre: P('sp') or P('k') == 0 or c1 != 32
    post: _
    """
    x = S(P('k'), c1, c2, c3)
    content = ['c1', 'c2', 'c3']
    content[P('pos')] = x
    marker = '> ' if P('sp') else '>'
    lines = [marker + c + '\n' for c in content]
    if not bt.Quote.start(lines[0]):
        return False
    cap, fw, tok = _record(bt.Quote, lines, start)
    if len(cap) == 0:
        give_up('tokenize_block was not called by Quote.read / Quote.__init__')
    if len(cap) != 1:
        return False
    buf, sl = cap[0]
    return buf == [c + '\n' for c in content] and sl == start and fw._index == 2


# ---------------------------------------------------------------------------------------- Q2

MARKERS = ['-', '+', '*', '1.', '7)', '123.', '123456789)']


@lemma('Q2.list-handoff', 'C04', quick=[{'k': k, 'pos': p, 'm': m} for k in (1, 2) for p in (0, 1, 3) for m in (0, 3, 6)],
       thorough=[{'k': k, 'pos': p, 'm': m} for k in (1, 2, 3) for p in (0, 1, 3) for m in range(7)], timeout=900, per_path=90,
       stubs=['block_tokenizer.tokenize_block -> recorder'],
       covers=['block_token.py:List.read', 'block_token.py:ListItem.read', 'block_token.py:ListItem.parse_marker',
               'block_token.py:ListItem.parse_continuation'],
       note='item of four lines (third blank), the non-blank line at position pos symbolic (k code points over Σmd, no tab/newline, first one not a space); marker from a list of bullet/ordered spellings, padding 1..4 symbolic')
def q2_list(c1: int, c2: int, c3: int, pad: int, start: int) -> bool:
    """
    pre: all_ok(cp_md, P('k'), c1, c2, c3) and no_nl_tab(P('k'), c1, c2, c3) and c1 != 32
    pre: 1 <= pad <= 4
    post: _
    """
    x = S(P('k'), c1, c2, c3)
    M = MARKERS[P('m')]
    content = ['x1', 'x2', '', 'x3']
    content[P('pos')] = x
    W = len(M) + pad
    lines = [M + ' ' * pad + content[0] + '\n', ' ' * W + content[1] + '\n', '\n', ' ' * W + content[3] + '\n']
    if not bt.List.start(lines[0]):
        return False
    cap, fw, tok = _record(bt.List, lines, start)
    if len(cap) == 0:
        give_up('tokenize_block was not called by List.read / List.__init__')
    if len(cap) != 1 or len(tok.children) != 1:
        return False
    buf, sl = cap[0]
    item = tok.children[0]
    return (buf == [content[0] + '\n', content[1] + '\n', '\n', content[3] + '\n'] and sl == start and item.line_number == start
            and item.indentation == 0 and item.prepend == W and item.leader == M and fw._index == 3)


# ---------------------------------------------------------------------------------------- Q3

@lemma('Q3.dispatch', 'C04', quick=[{'k': k, 'm': m} for k in (1, 2) for m in (0, 2, 3)], thorough=[{'k': k, 'm': m} for k in (1, 2, 3) for m in range(7)], timeout=900, per_path=90,
       covers=['block_token.py:BlockCode.start', 'block_token.py:Heading.start', 'block_token.py:Quote.start', 'block_token.py:HtmlBlock.start',
               'block_token.py:CodeFence.start', 'block_token.py:ThematicBreak.start', 'block_token.py:List.start'],
       note="first embedded line: no token type that comes before Quote accepts '> '+x or '>'+x; for a list marker M, the only earlier acceptor of M+pad+x is ThematicBreak, and only when the whole line is a thematic break by the spec grammar (the coincidence the property excludes)")
def q3_dispatch(c1: int, c2: int, c3: int, sp: bool, m: int, pad: int) -> bool:
    """
    pre: all_ok(cp_md, P('k'), c1, c2, c3) and no_nl_tab(P('k'), c1, c2, c3) and m == P('m') and 1 <= pad <= 4
    post: _
    """
    from vfy.ref.grammar import COMPILED
    x = S(P('k'), c1, c2, c3)
    types = [bt.HtmlBlock] + [getattr(bt, n) for n in bt.__all__]
    q = ('> ' if sp else '>') + x + '\n'
    for T in types[:types.index(bt.Quote)]:
        if T.start(q):
            return False
    if not bt.Quote.start(q):
        return False
    if x[:1] == ' ':
        return True
    line = MARKERS[m] + ' ' * pad + x + '\n'
    for T in types[:types.index(bt.List)]:
        if T.start(line):
            if T is not bt.ThematicBreak:
                return False
            if COMPILED['ThematicBreak'].match(line) is None:
                return False
    return bool(bt.List.start(line))


# ---------------------------------------------------------------------------------------- Q4

def embed_quote(T, sp):
    lines = T.split('\n')
    if T.endswith('\n'):
        lines = lines[:-1]
    return ''.join(('> ' if sp else '>') + ln + '\n' for ln in lines)


def embed_list(T, marker, pad):
    lines = T.split('\n')
    if T.endswith('\n'):
        lines = lines[:-1]
    W = len(marker) + pad
    out = []
    for i, ln in enumerate(lines):
        if i == 0:
            out.append(marker + ' ' * pad + ln + '\n')
        elif ln == '':
            out.append('\n')
        else:
            out.append(' ' * W + ln + '\n')
    return ''.join(out)


def has_setext(doc):
    from mistletoe.utils import traverse
    for r in traverse(doc):
        if type(r.node).__name__ == 'SetextHeading':
            return True
    return False


def excl_setext_in_quote(doc_T):
    """recorded finding C04/setext-in-quote: a setext heading is not recognised inside a block quote"""
    if P('noexcl', False):
        return False
    return has_setext(doc_T)


def law_holds(T, sp, marker, pad, which):
    """the two laws of the property for a concrete or symbolic T (side conditions evaluated here)"""
    from mistletoe import Document
    if T == '' or T.endswith('\n\n') or T == '\n' or T.strip() == '' or T.endswith('\n') and T[:-1].endswith('\n'):
        return True                     # does not end in a blank line / is not empty
    last = T.split('\n')[-1] if not T.endswith('\n') else T.split('\n')[-2]
    if last.strip() == '':
        return True
    dT = Document(T)
    base = [ast_of(t) for t in dT.children]
    if which == 'quote':
        if excl_setext_in_quote(dT):
            return True
        first = T.split('\n')[0]
        if not sp and first[:1] == ' ':
            pass
        if not sp and any(ln[:1] == ' ' for ln in T.split('\n')):
            return True                 # with the bare '>' marker a leading space would be eaten as the optional space
        dQ = Document(embed_quote(T, sp))
        if len(dQ.children) != 1 or type(dQ.children[0]).__name__ != 'Quote':
            return False
        return [ast_of(t) for t in dQ.children[0].children] == base and dQ.footnotes == dT.footnotes
    if T[:1] == ' ' or T[:1] == '\n':
        return True                     # the law is stated for texts starting with a non-space character
    first = T.split('\n')[0]
    from vfy.ref.grammar import COMPILED
    if COMPILED['ThematicBreak'].match(marker + ' ' * pad + first + '\n'):
        return True                     # marker / thematic-break coincidence, resolved the other way by the spec
    dL = Document(embed_list(T, marker, pad))
    if len(dL.children) != 1 or type(dL.children[0]).__name__ != 'List' or len(dL.children[0].children) != 1:
        return False
    item = dL.children[0].children[0]
    return [ast_of(t) for t in item.children] == base and dL.footnotes == dT.footnotes


Q4_ALPH = ALPH14 + '=|1.'
# spelling variants of the two embeddings (the hand-off lemmas Q1/Q2 cover every marker and padding)
VARIANTS = [{'which': 'quote', 'sp': True, 'm': 0, 'pad': 1}, {'which': 'quote', 'sp': False, 'm': 0, 'pad': 1},
            {'which': 'list', 'sp': True, 'm': 0, 'pad': 1}, {'which': 'list', 'sp': True, 'm': 5, 'pad': 3},
            {'which': 'list', 'sp': True, 'm': 2, 'pad': 4}, {'which': 'list', 'sp': True, 'm': 4, 'pad': 2}]


@lemma('Q4.pipeline', 'C04',
       quick=[dict(v, k=1, sigma=True) for v in VARIANTS[:4]] + by('c1', list('a-#>='), [dict(v, k=2, sigma=False) for v in (VARIANTS[0], VARIANTS[2])]),
       thorough=[dict(v, k=1, sigma=True) for v in VARIANTS]
       + by('c1', list(Q4_ALPH), [dict(v, k=2, sigma=False, timeout=3000) for v in VARIANTS])
       + by('c1', list('a-#>='), [dict(v, k=3, sigma=False, timeout=6000) for v in (VARIANTS[0], VARIANTS[3])]),
       timeout=900, per_path=120, canary=[{'k': 3, 'sigma': False, 'which': 'quote', 'sp': True, 'm': 0, 'pad': 1, 'c1': 'a', 'noexcl': True}],
       covers=['block_token.py:Document.__init__', 'block_token.py:Quote.read', 'block_token.py:ListItem.read', 'block_tokenizer.py:tokenize_block'],
       note="T of k characters (over Σmd without tab, or over the 18-character alphabet): AST of Document(embed(T)) == one container around the AST of Document(T), same link definitions; quote markers '> ' and '>', list markers from 7 spellings with padding 1..4")
def q4_pipeline(c1: int, c2: int, c3: int, sp: bool, m: int, pad: int) -> bool:
    """
    pre: fixed(c1, 'c1') and (all_ok(cp_md, P('k'), c1, c2, c3) if P('sigma') else all_in(Q4_ALPH, P('k'), c1, c2, c3))
    pre: c1 != 9 and c2 != 9 and c3 != 9 and sp == P('sp') and m == P('m') and pad == P('pad')
    post: _
    """
    T = S(P('k'), c1, c2, c3)
    return law_holds(T, sp, MARKERS[m], pad, P('which'))


# ---------------------------------------------------------------------------------------- Q5

Q5_SKELETONS = {
    'paragraphs': 'a{}\nb\n\nc', 'atx': '# h{}\ntext', 'fence': '```\nco{}de\n```\nafter', 'indented': 'p\n\n    code{}\n\nq',
    'thematic': 'a\n\n***\nb{}', 'table': '|a|b|\n|-|-|\n|c{}|d|', 'definition': '[l]: /u{}\n\n[l]', 'nested-quote': '> q{}\n> r\n\ns',
    'nested-list': '- i{}\n- j\n\nk', 'html': '<div>\nx{}\n</div>', 'interrupt': 'para{}\n# h\n> q\n- l', 'setext': 'Foo{}\n---\nbar',
    'ordered': '1. a{}\n2. b', 'two-defs': '[a]: /x\n[b]: /y{}\n\n[a] [b]',
    # holes at the START of a line (second and later lines of the content: what decides whether a new block starts)
    'ls-continuation': 'a\n{}b\nc', 'ls-after-blank': 'a\n\n{} b', 'ls-table-delim': 'a|b\n{}-|-\nc|d', 'ls-table-header': 'x\n\n{}a|b\n-|-',
    'ls-fence-open': 'a\n{}``\nx\n```', 'ls-fence-close': '```\nx\n{}``\ny', 'ls-underline': 'a\n{}==\nb', 'ls-html': 'a\n\n{}div>\nx',
    'ls-marker-run': 'a\n{}--\nb', 'ls-ordered': 'a\n\n{}. b\n\n2. c', 'ls-definition': 'a\n\n{}l]: /u\n\n[l]',
}


@lemma('Q5.skeletons', 'C04', quick=[dict(VARIANTS[0] if i % 2 == 0 and s != 'setext' else VARIANTS[3], sk=s) for i, s in enumerate(sorted(Q5_SKELETONS))],
       thorough=[dict(v, sk=s) for s in sorted(Q5_SKELETONS) for v in VARIANTS if not (s == 'setext' and v['which'] == 'quote')],
       timeout=900, per_path=120, canary=[{'sk': 'setext', 'which': 'quote', 'sp': True, 'm': 0, 'pad': 1, 'noexcl': True}],
       covers=['block_token.py:Quote.read', 'block_token.py:ListItem.read', 'block_tokenizer.py:tokenize_block', 'block_token.py:Paragraph.read'],
       note='one skeleton per block kind with a hole filled by ONE symbolic character over Σmd (or nothing): the nested tokenize_block call behaves like the top-level one')
def q5_skeletons(c1: int, has: bool, sp: bool, m: int, pad: int) -> bool:
    """
    pre: cp_md(c1) and c1 != 9 and c1 != 10 and sp == P('sp') and m == P('m') and pad == P('pad')
    post: _
    """
    from mistletoe.html_renderer import HtmlRenderer
    T = Q5_SKELETONS[P('sk')].format(chr(c1) if has else '')
    with HtmlRenderer():
        return law_holds(T, sp, MARKERS[m], pad, P('which'))


def witness_setext_in_quote():
    """a setext heading is not recognised inside a block quote: '> Foo\\n> ---'"""
    import mistletoe
    out = mistletoe.markdown('> Foo\n> ---\n')
    return '<h2>' not in out, "markdown('> Foo\\n> ---') = %r (CommonMark: <blockquote><h2>Foo</h2></blockquote>)" % out
