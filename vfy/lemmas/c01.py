"""C01 -- parsing and rendering are total and terminate for every input.

(a) the block loop terminates because every iteration advances the cursor (T2, per reader, any
    document length by induction on the remaining lines);
(b) the inline scanners are forward-only loops; the delimiter algorithm is covered by C06 with the
    stack symbolic (no exception, terminates);
(c) no statement raises on any reachable value: T1 end-to-end on tiny documents under every
    bundled renderer with symbolic options, T3 around every construct (skeletons with one
    symbolic character).
Termination is observed as "every path ends within the per-path budget".
"""
from vfy.lemma import lemma, P
from vfy.lemmas.common import S, cp_ok, cp_md, cp_in, all_ok, all_in, ALPH14, by, fixed, cell, cells
from vfy.plug.stubs import install_quote

ASSUMPTIONS = ["Pygments' highlight/get_lexer_by_name/guess_lexer are third-party and replaced by nondeterministic stubs (return a string / raise ClassNotFound on a symbolic boolean)",
               'urllib.parse.quote -> contract stub; Σ excludes lone surrogates',
               'T4 (and C08-H4, C17-L4, C18-X4): the skeleton is parsed natively; the symbolic attribute value ranges over what T4_HOLES declares the parser can deliver for that attribute']
OUTSIDE = ['documents longer than the bounds except through T2 (induction on lines) and T3 (one-character neighbourhoods of each construct)',
           'nesting deeper than the skeletons; recursion-limit behaviour; wall-clock on large inputs']


def renderer_table():
    """name -> (class, option kind)"""
    from mistletoe.html_renderer import HtmlRenderer
    from mistletoe.markdown_renderer import MarkdownRenderer
    from mistletoe.latex_renderer import LaTeXRenderer
    from mistletoe.ast_renderer import AstRenderer
    from mistletoe.contrib.toc_renderer import TocRenderer
    from mistletoe.contrib.github_wiki import GithubWikiRenderer
    from mistletoe.contrib.mathjax import MathJaxRenderer
    from mistletoe.contrib.jira_renderer import JiraRenderer
    from mistletoe.contrib.xwiki20_renderer import XWiki20Renderer
    t = {'Html': (HtmlRenderer, 'html'), 'Toc': (TocRenderer, 'toc'), 'GithubWiki': (GithubWikiRenderer, 'html'),
         'Markdown': (MarkdownRenderer, 'md'), 'LaTeX': (LaTeXRenderer, ''), 'MathJax': (MathJaxRenderer, 'html'),
         'Jira': (JiraRenderer, ''), 'XWiki20': (XWiki20Renderer, ''),
         # json.dumps is C-level: CrossHair realises what reaches it, so Ast only runs on finite alphabets
         'Ast': (AstRenderer, '')}
    try:
        from mistletoe.contrib import pygments_renderer as pr
        t['Pygments'] = (pr.PygmentsRenderer, 'pyg')
    except Exception:
        pass
    return t


RENDERERS = ['Html', 'Toc', 'GithubWiki', 'Pygments', 'Markdown', 'LaTeX', 'MathJax', 'Jira', 'XWiki20']   # one job each
RENDERERS_FINITE = RENDERERS + ['Ast']
MAIN = ['Html', 'Markdown', 'LaTeX', 'XWiki20', 'Jira']


class _Lexer:
    pass


def stub_pygments(unknown):
    """environment stub with the documented contract: get_lexer_by_name raises ClassNotFound for an
    unknown language, highlight returns a string"""
    import vfy.lemma as L
    if L.CONCRETE:
        return
    from mistletoe.contrib import pygments_renderer as pr

    def get_lexer(name):
        if unknown:
            raise pr.ClassNotFound(name)
        return _Lexer()
    pr.get_lexer = get_lexer
    pr.guess_lexer = lambda code: _Lexer()
    pr.highlight = lambda code, lexer, formatter: '<div class="highlight"><pre>' + code + '</pre></div>\n'


def render_one(rname, s, b1, b2, b3, L, depth):
    """parse-and-render s under one bundled renderer, supplied as str and (Html only: the input form is
    handled by Document.__init__, before any renderer-specific code) as list of lines; True iff it returns a
    str or raises one of the two documented refusals"""
    from mistletoe import Document
    tbl = renderer_table()
    if rname not in tbl:
        return True
    cls, kind = tbl[rname]
    kw = {}
    if kind in ('html', 'toc', 'pyg'):
        kw = {'html_escape_double_quotes': b1, 'html_escape_single_quotes': b2, 'process_html_tokens': b3}
    if kind == 'toc':
        kw.update(depth=depth, omit_title=b1)
    if kind == 'pyg':
        kw.update(fail_on_unsupported_language=b2)
    if kind == 'md':
        kw = {'max_line_length': L if b1 else None, 'normalize_whitespace': b2}
    for form in range(2 if rname == 'Html' else 1):
        try:
            with cls(**kw) as r:
                out = r.render(Document(s if form == 0 else s.split('\n')))
        except RuntimeError as e:
            if rname in ('LaTeX', 'MathJax') and 'Unable to find delimiter' in str(e):
                continue
            raise
        except Exception as e:
            if kind == 'pyg' and b2 and type(e).__name__ == 'ClassNotFound':
                continue
            raise
        if not isinstance(out, str):
            return False
    return True


def default_opts(b1, b2, b3, unknown):
    """job parameter opts='default' pins the renderer options to their defaults (quick tier); otherwise they are symbolic"""
    if P('opts', 'symbolic') != 'default':
        return True
    return (not b1) and (not b2) and b3 and (not unknown)


def _t1_quick():
    out = [{'k': 1, 'sigma': True, 'r': r} for r in RENDERERS]
    out += [{'k': 2, 'sigma': False, 'r': r, 'c1': c, 'opts': 'default'} for r in ('Html', 'Markdown', 'XWiki20', 'Ast') for c in '>-']
    return out


def _t1_thorough():
    out = [{'k': 1, 'sigma': True, 'r': r, 'timeout': 1800} for r in RENDERERS]
    out += [{'k': 2, 'sigma': False, 'r': r, 'c1': c, 'timeout': 3000} for r in ('Html', 'Markdown', 'XWiki20') for c in ALPH14]
    out += [{'k': 2, 'sigma': False, 'r': r, 'c1': c, 'opts': 'default', 'timeout': 3000} for r in ('LaTeX', 'Jira', 'Ast', 'MathJax') for c in ALPH14]
    return out


@lemma('T1.pipeline', 'C01', quick=_t1_quick(), thorough=_t1_thorough(), timeout=900, per_path=150,
       stubs=['urllib.parse.quote -> contract stub', 'pygments highlight/get_lexer/guess_lexer -> nondeterministic stubs'],
       covers=['__init__.py:markdown', 'block_token.py:Document.__init__', 'block_tokenizer.py:tokenize_block', 'span_tokenizer.py:tokenize',
               'base_renderer.py:BaseRenderer.render'],
       note='document of k characters (over Σ, or over the 14 Markdown-significant characters), one bundled renderer per job, its options symbolic (booleans; max_line_length and depth unbounded ints)')
def t1_pipeline(c1: int, c2: int, c3: int, b1: bool, b2: bool, b3: bool, L: int, depth: int, unknown: bool) -> bool:
    """
    pre: fixed(c1, 'c1') and (all_ok(cp_ok, P('k'), c1, c2, c3) if P('sigma') else all_in(ALPH14, P('k'), c1, c2, c3))
    pre: L >= 1 and (P('r') != 'Ast' or not P('sigma')) and default_opts(b1, b2, b3, unknown)
    post: _
    """
    install_quote()
    stub_pygments(unknown)
    return render_one(P('r'), S(P('k'), c1, c2, c3), b1, b2, b3, L, depth)


# ------------------------------------------------------------------------------ T2 reader progress

FRAME = ['a\n', None, '\n', '    c\n', '\n']          # None = the symbolic line
READERS = ['BlockCode', 'Heading', 'Quote', 'CodeFence', 'ThematicBreak', 'List', 'Table', 'Footnote', 'Paragraph', 'HtmlBlock',
           'BlankLine', 'LinkReferenceDefinitionBlock']


def _reader(name):
    from mistletoe import block_token as bt
    from mistletoe import markdown_renderer as mr
    return getattr(bt, name, None) or getattr(mr, name)


def no_nl(k, *cps):
    for c in cps[:k]:
        if c == 10:
            return False
    return True


@lemma('T2.progress', 'C01', quick=[{'reader': r, 'k': k} for r in READERS for k in (1, 2)] + [{'reader': r, 'k': 3} for r in ('BlockCode', 'Quote', 'List', 'Footnote')],
       thorough=[{'reader': r, 'k': k} for r in READERS for k in (1, 2, 3, 4)], timeout=600, per_path=90,
       covers=['block_tokenizer.py:tokenize_block', 'block_tokenizer.py:FileWrapper.backstep', 'block_token.py:Quote.read',
               'block_token.py:Paragraph.read', 'block_token.py:ListItem.read', 'block_token.py:BlockCode.read', 'block_token.py:Footnote.read'],
       note='one symbolic line (k code points over Σ, no newline) at the second position of a 5-line frame; cursor position symbolic (0..4): '
            'read() returning None leaves the cursor where it was, otherwise the cursor has strictly advanced and is within the buffer')
def t2_progress(c1: int, c2: int, c3: int, c4: int, pos: int) -> bool:
    """
    pre: all_ok(cp_ok, P('k'), c1, c2, c3, c4) and no_nl(P('k'), c1, c2, c3, c4) and 0 <= pos <= 4
    post: _
    """
    from mistletoe import block_token as bt, block_tokenizer as btk, token as tokmod
    x = S(P('k'), c1, c2, c3, c4)
    lines = [x + '\n' if ln is None else ln for ln in FRAME]
    T = _reader(P('reader'))
    fw = btk.FileWrapper(list(lines))
    fw._index = pos - 1
    line = fw.peek()
    if line is None:
        return True
    root = bt.Document.__new__(bt.Document)
    root.footnotes = {}
    tokmod._root_node = root
    try:
        if not T.start(line):
            return True
        before = fw._index
        res = T.read(fw)
    finally:
        tokmod._root_node = None
        bt.Paragraph.parse_setext = True
    if res is None:
        return fw._index == before
    return before < fw._index <= len(lines) - 1


@lemma('T2.dispatch', 'C01', quick=[{'k': 1}], thorough=[{'k': 1}, {'k': 2, 'timeout': 3000}], timeout=600, per_path=90,
       covers=['block_tokenizer.py:tokenize_block'],
       note="the dispatch loop itself: with token types whose start() is never true the 'unmatched newline' branch consumes exactly one line per iteration; with the real token types every line of a 3-line buffer (middle line symbolic) is consumed exactly once")
def t2_dispatch(c1: int, c2: int, n: int) -> bool:
    """
    pre: all_ok(cp_ok, P('k'), c1, c2) and no_nl(P('k'), c1, c2) and 0 <= n <= 4
    post: _
    """
    from mistletoe import block_token as bt, block_tokenizer as btk, token as tokmod

    class Never:
        @staticmethod
        def start(line):
            return False
    pb = btk.tokenize_block(['z\n'] * n, [Never])
    if len(pb) != 0 or (n > 0 and not pb.loose):
        return False
    x = S(P('k'), c1, c2)
    seen = []

    class Spy(bt.Paragraph):
        @staticmethod
        def start(line):
            seen.append(line)
            return False
    root = bt.Document.__new__(bt.Document)
    root.footnotes = {}
    tokmod._root_node = root
    try:
        btk.tokenize_block(['a\n', x + '\n', 'b\n'], [Spy] + list(bt._token_types))
    finally:
        tokmod._root_node = None
        bt.Paragraph.parse_setext = True
    # the dispatch loop looked at a strictly increasing sequence of positions (progress)
    return 1 <= len(seen) <= 3 and seen[0] == 'a\n'


OPENERS = {'paragraph': ['a\n'], 'quote': ['> q\n'], 'item': ['- i\n'], 'ordered': ['1. i\n'], 'indented': ['    c\n'], 'fence': ['```\n'],
           'table': ['|a|b|\n', '|-|-|\n'], 'html': ['<div>\n'], 'comment': ['<!--\n'], 'definition': ['[l]: /u\n'], 'heading': ['# h\n'],
           'quote-item': ['> - i\n'], 'item-quote': ['- > q\n']}


@lemma('T2.continuation', 'C01', quick=[{'open': o, 'k': 1} for o in sorted(OPENERS)] + cells('c1cell', [' \t', '>-*+#`|<[=~:'], [{'open': o, 'k': 2} for o in ('quote', 'item', 'paragraph')]),
       thorough=[{'open': o, 'k': 1} for o in sorted(OPENERS)] + cells('c1cell', [' \t', '>-*+#`|<[=~:'], [{'open': o, 'k': 2} for o in sorted(OPENERS)] + [{'open': o, 'k': 3, 'timeout': 3000} for o in ('quote', 'item', 'paragraph', 'indented')]), timeout=600, per_path=90,
       covers=['block_tokenizer.py:tokenize_block', 'block_token.py:Quote.read', 'block_token.py:ListItem.read', 'block_token.py:Paragraph.read',
               'block_token.py:BlockCode.read', 'block_token.py:CodeFence.read', 'block_token.py:Table.read', 'block_token.py:HtmlBlock.read', 'block_token.py:Footnote.read',
               'block_token.py:Quote.convert_leading_tabs', 'block_token.py:ListItem.parse_continuation'],
       note='block phase only: an opened construct (paragraph, quote, list item, code, table, HTML block, definition, nested containers) followed by ONE symbolic line (k code points over Σ, no newline) and a closing line: '
            'tokenize_block returns (no exception, every path ends) -- the continuation / lazy-continuation / interruption tests of every reader on an arbitrary next line')
def t2_continuation(c1: int, c2: int, c3: int) -> bool:
    """
    pre: cell(c1, 'c1cell') and all_ok(cp_ok, P('k'), c1, c2, c3) and no_nl(P('k'), c1, c2, c3)
    post: _
    """
    from mistletoe import block_token as bt, block_tokenizer as btk, token as tokmod
    x = S(P('k'), c1, c2, c3)
    lines = OPENERS[P('open')] + [x + '\n', 'z\n']
    types = [bt.HtmlBlock] + [getattr(bt, n) for n in bt.__all__]
    root = bt.Document.__new__(bt.Document)
    root.footnotes = {}
    saved = bt._token_types
    bt._token_types = types
    tokmod._root_node = root
    try:
        pb = btk.tokenize_block(lines, types)
    finally:
        bt._token_types = saved
        tokmod._root_node = None
        bt.Paragraph.parse_setext = True
    return isinstance(pb, list)


# -------------------------------------------------------------------------------- T3 constructs

SKELETONS = {
    'image-alt': '![a{}b *c*](/u)\n', 'emphasis': '*a{}b* **c**\n', 'code-span': 'x `a{}b` y\n', 'link': '[a{}](/u "t")\n', 'image': '![a](/u{} "t")\n',
    'ref-link': '[a][l{}]\n\n[l]: /u\n', 'autolink': '<http://a{}>\n', 'html-span': 'a <b{}> c\n', 'entity': 'a &am{}p; b\n',
    'escape': 'a \\{} b\n', 'strike': '~~a{}~~\n', 'hard-break': 'a  {}\nb\n', 'heading': '# a{} #\n', 'setext': 'a{}\n===\n',
    'fence': '```p{}y\nx\n```\n', 'indented': '    a{}\n\n    b\n', 'quote': '> a{}\n> b\n', 'quote-lazy': '> a\n{}b\n',
    'list': '- a{}\n- b\n', 'ordered': '1. a\n2{}. b\n', 'nested-list': '- a\n  - b{}\n', 'loose-list': '- a\n\n  {}b\n',
    'table': '|a|b|\n|-|-|\n|c{}|d|\n', 'table-delim': '|a|b|\n|-{}|-|\n', 'html-block': '<div>\na{}\n</div>\n', 'html-comment': '<!-- a{}\n-->\n',
    'thematic': '**{}*\n', 'definition': '[l]: /u{} "t"\n\n[l]\n', 'quote-in-list': '- > a{}\n  > b\n', 'list-in-quote': '> - a{}\n>   b\n',
    'math': '$a{}$ b\n', 'wiki': '[[a{}|b]]\n', 'empty-quote': '>{}\n', 'empty-item': '-{}\n',
}


@lemma('T3.constructs', 'C01', quick=[{'sk': s, 'r': r, 'opts': 'default'} for s in ('empty-quote', 'empty-item', 'image-alt') for r in ('Html', 'Markdown', 'LaTeX', 'Jira', 'XWiki20')],
       thorough=[{'sk': s, 'r': r, 'opts': 'default', 'timeout': 3000} for s in sorted(SKELETONS) for r in MAIN]
       + [{'sk': s, 'r': 'Html', 'timeout': 3000} for s in ('empty-quote', 'empty-item', 'image-alt', 'link', 'html-span', 'html-block')], timeout=900, per_path=150,
       stubs=['urllib.parse.quote -> contract stub', 'pygments -> stubs'],
       covers=['block_token.py:Document.__init__', 'base_renderer.py:BaseRenderer.render'],
       note='one skeleton per block / inline construct with a hole filled by ONE symbolic character over Σ (or nothing); one bundled renderer per job')
def t3_constructs(c1: int, has: bool, b1: bool, b2: bool, b3: bool, L: int, depth: int, unknown: bool) -> bool:
    """
    pre: (cp_in(c1, ALPH14) if P('r') == 'Ast' else cp_ok(c1)) and L >= 1 and default_opts(b1, b2, b3, unknown)
    post: _
    """
    install_quote()
    stub_pygments(unknown)
    s = SKELETONS[P('sk')].format(chr(c1) if has else '')
    return render_one(P('r'), s, b1, b2, b3, L, depth)


# ---------------------------------------------------------------------------------------- T4
# Rendering phase on REAL tokens: a concrete skeleton is parsed natively (outside the tracer: nothing in it is
# symbolic), then ONE string attribute of one token is replaced by a symbolic string the parser can deliver for
# that attribute, and the document is rendered symbolically.  Much cheaper than T3 (no block phase over symbolic
# lines), so every bundled renderer sees k = 2 symbolic characters in every attribute in the quick tier.

_PUNCT = '!"#$%&\'()*+,-./:;<=>?@[\\]^_`{|}~'


def _esc(w):
    return ''.join(('\\' + c) if c in _PUNCT else c for c in w)


def _nospace(w):
    for c in w:
        if c.isspace():
            return False
    return True


def _no(w, chars):
    for c in w:
        if c in chars:
            return False
    return True


def _set_text(t, w):
    t.content = 'a' + w + 'b'


def _set_fence_language(t, w):
    t.language = w
    t.info_string = w


def _set_autolink(t, w):
    t.target = 'http://a' + w
    t.children[0].content = 'http://a' + w
    try:
        t.mailto = '@' in w          # AutoLink.__init__ derives it from the target
    except AttributeError:
        pass                         # computed on access in some other arrangement of the class: nothing to keep consistent


# name -> (skeleton, path to the token, setter, what the parser can deliver, texts that deliver it)
T4_HOLES = {
    'text': ('a x b\n', (0, 0), _set_text, lambda w: _no(w, '\n'), lambda w: ['a' + _esc(w) + 'b\n', 'a' + w + 'b\n']),
    'heading-text': ('# a x b\n', (0, 0), _set_text, lambda w: _no(w, '\n'), lambda w: ['# a' + _esc(w) + 'b\n', '# a' + w + 'b\n']),
    'item-text': ('- a x b\n- c\n', (0, 0, 0, 0), _set_text, lambda w: _no(w, '\n'), lambda w: ['- a' + _esc(w) + 'b\n- c\n', '- a' + w + 'b\n- c\n']),
    'cell-text': ('|a x b|c|\n|-|-|\n|d|e|\n', (0, 0, 0, 0), _set_text, lambda w: _no(w, '\n'),
                  lambda w: ['|a' + _esc(w) + 'b|c|\n|-|-|\n|d|e|\n', '|a' + w.replace('|', '\\|') + 'b|c|\n|-|-|\n|d|e|\n']),
    'quote-text': ('> a x b\n', (0, 0, 0), _set_text, lambda w: _no(w, '\n'), lambda w: ['> a' + _esc(w) + 'b\n', '> a' + w + 'b\n']),
    'emphasis-text': ('*a x b* **c**\n', (0, 0, 0), _set_text, lambda w: _no(w, '\n'), lambda w: ['*a' + _esc(w) + 'b* **c**\n', '*a' + w + 'b* **c**\n']),
    'fence-language': ('~~~py\nx\n~~~\n', (0,), _set_fence_language, lambda w: _nospace(w) and _no(w, '\\') and w[:1] != '~',
                       lambda w: ['~~~' + w + '\nx\n~~~\n']),
    'fence-content': ('~~~py\nx\n~~~\n', (0, 0), lambda t, w: setattr(t, 'content', w + '\n'), lambda w: _no(w, '\n'), lambda w: ['~~~py\n' + w + '\n~~~\n']),
    'indented-content': ('    x\n', (0, 0), lambda t, w: setattr(t, 'content', 'x' + w + '\n'), lambda w: _no(w, '\n'), lambda w: ['    x' + w + '\n']),
    'code-span': ('a `x` b\n', (0, 1, 0), lambda t, w: setattr(t, 'content', 'x' + w), lambda w: _no(w, '`\n'), lambda w: ['a `x' + w + '` b\n', 'a ``x' + w + '`` b\n']),
    'link-target': ('[a](</u> "t")\n', (0, 0), lambda t, w: setattr(t, 'target', w), lambda w: _no(w, '\n'), lambda w: ['[a](<' + _esc(w) + '> "t")\n']),
    'link-title': ('[a](</u> "t")\n', (0, 0), lambda t, w: setattr(t, 'title', w), lambda w: _no(w, '\n'), lambda w: ['[a](</u> "' + _esc(w) + '")\n']),
    'image-src': ('![a](</u> "t")\n', (0, 0), lambda t, w: setattr(t, 'src', w), lambda w: _no(w, '\n'), lambda w: ['![a](<' + _esc(w) + '> "t")\n']),
    'image-title': ('![a](</u> "t")\n', (0, 0), lambda t, w: setattr(t, 'title', w), lambda w: _no(w, '\n'), lambda w: ['![a](</u> "' + _esc(w) + '")\n']),
    'autolink': ('<http://a>\n', (0, 0), _set_autolink, lambda w: _nospace(w) and _no(w, '<>'), lambda w: ['<http://a' + w + '>\n']),
    'html-block': ('<div>\nx\n</div>\n', (0, 0), lambda t, w: setattr(t, 'content', '<div>\nx' + w + '\n</div>'), lambda w: _no(w, '\n'),
                   lambda w: ['<div>\nx' + w + '\n</div>\n']),
    'math': ('$x$ b\n', (0, 0), lambda t, w: setattr(t, 'content', '$x' + w + '$'), lambda w: _no(w, '$\n'), lambda w: ['$x' + w + '$ b\n']),
}
T4_ONLY = {'math': ('LaTeX', 'MathJax')}


T4_SLOW = {('cell-text', 'Markdown')}


def _t4_jobs(names, ks, opts=None, slow=False):
    out = []
    for h in sorted(T4_HOLES):
        for r in names:
            if h in T4_ONLY and r not in T4_ONLY[h]:
                continue
            for k in ks:
                if (h, r) in T4_SLOW and k > 0 and not slow:
                    continue            # padding a table column to the width of symbolic text: left to the thorough tier
                j = {'hole': h, 'r': r, 'k': k}
                if opts:
                    j['opts'] = opts
                if j not in out:
                    out.append(j)
    return out


def t4_deliverable(c1, c2, c3):
    return T4_HOLES[P('hole')][3](S(P('k'), c1, c2, c3))


def _t4_kwargs(kind, b1, b2, b3, L, depth):
    kw = {}
    if kind in ('html', 'toc', 'pyg'):
        kw = {'html_escape_double_quotes': b1, 'html_escape_single_quotes': b2, 'process_html_tokens': b3}
    if kind == 'toc':
        kw.update(depth=depth, omit_title=b1)
    if kind == 'pyg':
        kw.update(fail_on_unsupported_language=b2)
    if kind == 'md':
        kw = {'max_line_length': L if b1 else None, 'normalize_whitespace': b2}
    return kw


def t4_replay(c1, c2, c3, b1, b2, b3, L, depth, unknown):
    """through the public API only: some text that delivers the attribute value makes the renderer raise"""
    from mistletoe import Document
    w = S(P('k'), c1, c2, c3)
    skeleton, path, setter, deliverable, texts = T4_HOLES[P('hole')]
    if not deliverable(w):
        return False, 'pre-condition false for %r' % w
    cls, kind = renderer_table()[P('r')]
    kw = _t4_kwargs(kind, b1, b2, b3, L, depth)
    seen = []
    for text in texts(w):
        try:
            with cls(**kw) as r:
                out = r.render(Document(text))
            seen.append((text, 'ok'))
        except Exception as e:
            if kind == 'pyg':
                continue        # Pygments itself is outside the claim (stubbed in the lemma)
            return True, '%s(**%r).render(Document(%r)) raised %s: %s' % (cls.__name__, kw, text, type(e).__name__, e)
    return False, 'no text delivering %r raised: %r' % (w, seen)


@lemma('T4.render-attrs', 'C01', quick=_t4_jobs(MAIN, [2], opts='default'),
       thorough=_t4_jobs(MAIN, [2], opts='default') + _t4_jobs(RENDERERS, [0, 1, 2], slow=True) + [dict(j, timeout=3000) for j in _t4_jobs(MAIN, [3], slow=True)], timeout=600, per_path=60, replay=t4_replay,
       stubs=['urllib.parse.quote -> contract stub', 'pygments -> stubs', 'concrete skeleton parsed natively, one attribute replaced by the symbolic string'],
       covers=['base_renderer.py:BaseRenderer.render', 'base_renderer.py:BaseRenderer.render_inner'],
       note='every string attribute a renderer reads (text in six contexts, code content, fence language, link / image target and title, autolink, HTML block, math) '
            'takes any k-character value the parser can deliver for it (Σmd; per-attribute exclusions in T4_HOLES); the renderer returns a str. '
            'Counterexamples are replayed through Document(text) only')
def t4_render_attrs(c1: int, c2: int, c3: int, b1: bool, b2: bool, b3: bool, L: int, depth: int, unknown: bool) -> bool:
    """
    pre: all_ok(cp_md, P('k'), c1, c2, c3) and t4_deliverable(c1, c2, c3) and L >= 1 and default_opts(b1, b2, b3, unknown)
    post: _
    """
    from mistletoe import Document
    from vfy.lemma import untraced
    install_quote()
    stub_pygments(unknown)
    w = S(P('k'), c1, c2, c3)
    skeleton, path, setter, deliverable, texts = T4_HOLES[P('hole')]
    cls, kind = renderer_table()[P('r')]
    with cls(**_t4_kwargs(kind, b1, b2, b3, L, depth)) as r:
        with untraced():
            doc = Document(skeleton)
        t = doc
        for i in path:
            t = t.children[i]
        setter(t, w)
        try:
            out = r.render(doc)
        except Exception as e:
            if kind == 'pyg' and b2 and type(e).__name__ == 'ClassNotFound':
                return True
            raise
    return isinstance(out, str)


def witness_empty_quote():
    """(fixed) JiraRenderer / XWiki20Renderer raised IndexError on an empty block quote or list item"""
    import mistletoe
    from mistletoe.contrib.jira_renderer import JiraRenderer
    from mistletoe.contrib.xwiki20_renderer import XWiki20Renderer
    bad = []
    for cls in (JiraRenderer, XWiki20Renderer):
        for doc in ('>', '-', '>\n\n-\n'):
            try:
                mistletoe.markdown(doc, cls)
            except Exception as e:
                bad.append('%s(%r): %s' % (cls.__name__, doc, type(e).__name__))
    return bool(bad), 'empty containers: %s' % (bad or 'no exception')
