"""C16 -- inline tokenization tiles the source; custom tokens obey the precedence rule.

The resolution algorithm (span_tokenizer.eval_tokens / relation / eval_new_child /
make_tokens / ParseToken) only compares integers, so candidates are abstract: every
coordinate and precedence is an UNBOUNDED symbolic integer, the source is a duck string
that records slices (SpanStr), token classes and match objects are 10-line stubs.
"""
from vfy.lemma import lemma, P, Duck
from mistletoe import span_tokenizer as st

ASSUMPTIONS = ['C16: candidates are abstract (start, parse_start, parse_end, end, precedence, parse_inner); '
               'SpanStr/stub classes stand for the source string and the user token classes (stubs listed per lemma)']
OUTSIDE = ['more than 3 (quick) / 4 (thorough) simultaneous candidates', 'custom find() methods that return unsorted or overlapping matches of the same type beyond what P2 covers']


class SpanStr(Duck):
    """duck-typed source string: slicing returns the sliced interval"""
    def __init__(self, lo, hi):
        self.lo, self.hi = lo, hi

    def __getitem__(self, sl):
        assert isinstance(sl, slice) and sl.step is None
        return SpanStr(self.lo + sl.start, self.lo + sl.stop)

    def __contains__(self, x):      # html.unescape: "if '&' not in s: return s"
        return False

    def __len__(self):
        return self.hi - self.lo


def mk_cls(idx, prec, inner, group=1):
    class C:
        precedence = prec
        parse_inner = inner
        parse_group = group

        def __init__(self, match):
            self.m = match
            self.idx = idx
    C.__name__ = 'C%d' % idx
    return C


class M:
    def __init__(self, s, e, ps, pe):
        self.s, self.e, self.ps, self.pe = s, e, ps, pe

    def start(self, g=0):
        return self.s if g == 0 else self.ps

    def end(self, g=0):
        return self.e if g == 0 else self.pe


def fallback(span):
    return ('raw', span.lo, span.hi)


def resolve(n, cands):
    """run the REAL resolution code on abstract candidates [(s, e, a, b, prec, inner)]"""
    string = SpanStr(0, n)
    toks = [st.ParseToken(s, e, M(s, e, a, b), string, mk_cls(i, p, inner), fallback)
            for i, (s, e, a, b, p, inner) in enumerate(cands)]
    tokens = sorted(toks)
    buf = []
    prev = tokens[0]
    for curr in tokens[1:]:
        prev = st.eval_tokens(prev, curr, buf)
    buf.append(prev)
    return st.make_tokens(buf, 0, n, string, fallback)


def check_invariants(out, lo, hi):
    """tokens in source order, pairwise disjoint, children inside the parent's parse group,
    raw text + delimiters + children tile [lo, hi) exactly.  Returns False on violation."""
    pos = lo
    for t in out:
        if isinstance(t, tuple):
            if t[1] != pos or t[2] <= t[1]:
                return False
            pos = t[2]
        else:
            m = t.m
            if m.s != pos or m.e <= m.s:
                return False
            if type(t).parse_inner:
                if not (m.s <= m.ps <= m.pe <= m.e):
                    return False
                if not check_invariants(t.children, m.ps, m.pe):
                    return False
            pos = m.e
    return pos == hi


def present(out, idx):
    """nesting depth at which candidate idx occurs in the output (-1 = absent)"""
    for t in out:
        if not isinstance(t, tuple):
            if t.idx == idx:
                return 0
            if type(t).parse_inner:
                d = present(t.children, idx)
                if d >= 0:
                    return d + 1
    return -1


def excl_trailing_delimiter(s1, e1, a1, b1, p1, s2, e2, p2):
    """recorded finding C16/trailing-delimiter: the later candidate lies wholly inside the
    earlier one's trailing delimiter and has the higher precedence"""
    if P('noexcl', False):
        return False
    return e1 >= e2 and b1 <= s2 and s2 < e1 and p2 > p1


@lemma('P1.two-candidates', 'C16', timeout=200, twin_timeout=60, canary=[{'noexcl': True}],
       stubs=['SpanStr (source string as interval)', 'stub token classes / match objects', 'fallback token = ("raw", lo, hi)'],
       covers=['span_tokenizer.py:eval_tokens', 'span_tokenizer.py:relation', 'span_tokenizer.py:make_tokens',
               'span_tokenizer.py:ParseToken.make', 'span_tokenizer.py:ParseToken.append_child'],
       note='ALL integer coordinates and precedences (covers the 13 Allen relations and every precedence pair)')
def p1_two(n: int, s1: int, e1: int, a1: int, b1: int, p1: int, i1: bool,
           s2: int, e2: int, a2: int, b2: int, p2: int, i2: bool) -> bool:
    """
    pre: 0 <= s1 <= a1 <= b1 <= e1 <= n and s1 < e1
    pre: 0 <= s2 <= a2 <= b2 <= e2 <= n and s2 < e2
    pre: s1 <= s2
    pre: not excl_trailing_delimiter(s1, e1, a1, b1, p1, s2, e2, p2)
    post: _
    """
    out = resolve(n, [(s1, e1, a1, b1, p1, i1), (s2, e2, a2, b2, p2, i2)])
    if not check_invariants(out, 0, n):
        return False
    dx, dy = present(out, 0), present(out, 1)
    if e1 <= s2:                                   # no conflict
        return dx == 0 and dy == 0
    if a1 <= s2 and e2 <= b1:                      # inside the other's parse group: nests
        return dx == 0 and dy == (1 if i1 else -1)
    if p1 >= p2:                                   # higher precedence wins, ties to the earlier
        return dx == 0 and dy == -1
    return dx == -1 and dy == 0


def expected_pair(x, y):
    """documented rule for two candidates x, y (x first): (depth of x, depth of y), -1 = dropped.
    x, y = (s, e, a, b, prec, inner)"""
    s1, e1, a1, b1, p1, i1 = x
    s2, e2, a2, b2, p2, i2 = y
    if e1 <= s2:
        return (0, 0)
    if a1 <= s2 and e2 <= b1:
        return (0, 1 if i1 else -1)
    if p1 >= p2:
        return (0, -1)
    return (-1, 0)


@lemma('P2.k-candidates', 'C16', quick=[{'k': 3, 'ord': o, 'i1': i, 'i2': j} for o in range(4) for i in (False, True) for j in (False, True)],
       thorough=[{'k': 3, 'ord': o, 'i1': i, 'i2': j} for o in range(4) for i in (False, True) for j in (False, True)],
       timeout=600, per_path=30,
       stubs=['SpanStr', 'stub token classes / match objects'],
       covers=['span_tokenizer.py:eval_tokens', 'span_tokenizer.py:eval_new_child', 'span_tokenizer.py:relation',
               'span_tokenizer.py:make_tokens'],
       note='three candidates, all integer coordinates; partitioned by how the second candidate relates to the first; invariants (order, disjointness, containment, tiling) always; '
            'plus the pairwise rule where it is not shadowed: two candidates that both lie in the parse group of a first, inner-parsing one are resolved among themselves exactly like two top-level candidates, '
            'and a first candidate that precedes both others leaves them to the two-candidate rule')
def p2_three(n: int, s1: int, e1: int, a1: int, b1: int, p1: int, i1: bool,
             s2: int, e2: int, a2: int, b2: int, p2: int, i2: bool,
             s3: int, e3: int, a3: int, b3: int, p3: int, i3: bool) -> bool:
    """
    pre: 0 <= s1 <= a1 <= b1 <= e1 <= n and s1 < e1
    pre: 0 <= s2 <= a2 <= b2 <= e2 <= n and s2 < e2
    pre: 0 <= s3 <= a3 <= b3 <= e3 <= n and s3 < e3
    pre: s1 <= s2 <= s3
    pre: p2_part(s1, e1, a1, b1, s2, e2) and i1 == P('i1') and i2 == P('i2')
    post: _
    """
    c1, c2, c3 = (s1, e1, a1, b1, p1, i1), (s2, e2, a2, b2, p2, i2), (s3, e3, a3, b3, p3, i3)
    out = resolve(n, [c1, c2, c3])
    if not check_invariants(out, 0, n):
        return False
    d = (present(out, 0), present(out, 1), present(out, 2))
    want = p2_expected(c1, c2, c3)
    return want is None or d == want


def p2_expected(c1, c2, c3):
    """expected nesting depths (-1 = dropped) in the two configurations where the pairwise rule
    is not shadowed by the third candidate; None = only the invariants are claimed"""
    s1, e1, a1, b1, p1, i1 = c1
    s2, e2, a2, b2, p2, i2 = c2
    s3, e3, a3, b3, p3, i3 = c3
    if excl_trailing_delimiter(s2, e2, a2, b2, p2, s3, e3, p3):
        return None
    if e1 <= s2:
        # the first candidate precedes both others: they are a plain two-candidate problem
        return (0,) + expected_pair(c2, c3)
    if i1 and a1 <= s2 and e2 <= b1 and a1 <= s3 and e3 <= b1:
        # both inside the first one's parse group: siblings under it, same rule one level down
        w = expected_pair(c2, c3)
        return (0,) + tuple(-1 if v == -1 else v + 1 for v in w)
    return None


def p2_part(s1, e1, a1, b1, s2, e2):
    o = P('ord', -1)
    if o == -1:
        return True
    if o == 0:
        return e1 <= s2
    if o == 1:
        return e1 > s2 and a1 <= s2 and e2 <= b1
    if o == 2:
        return e1 > s2 and not (a1 <= s2 and e2 <= b1) and e1 >= e2
    return e1 > s2 and not (a1 <= s2 and e2 <= b1) and e1 < e2


# ---------------------------------------------------------------------------------------
# P3: real patterns through the renderer (string level)

def _custom_classes():
    import re
    from mistletoe.span_token import SpanToken

    class Angle(SpanToken):          # <<...>>, parses its inside
        pattern = re.compile(r'<<(.*?)>>')
        precedence = P('pA', 5)
        parse_inner = P('iA', True)

    class Brace(SpanToken):          # {...}, whole match is the parse group when gB == 0
        pattern = re.compile(r'\{([^{}]*)\}')
        precedence = P('pB', 5)
        parse_inner = P('iB', True)
        parse_group = P('gB', 1)
    return Angle, Brace


def _src(tokens, out):
    """recover the source by concatenating raw text, delimiters and children"""
    for t in tokens:
        name = type(t).__name__
        if name == 'RawText':
            out.append(t.content)
        elif name == 'Angle':
            if type(t).parse_inner:
                out.append('<<')
                _src(t.children, out)
                out.append('>>')
            else:
                out.append('<<' + t.content + '>>')
        elif name == 'Brace':
            if type(t).parse_inner:
                if type(t).parse_group == 0:
                    _src(t.children, out)
                else:
                    out.append('{')
                    _src(t.children, out)
                    out.append('}')
            else:
                out.append(t.content if type(t).parse_group == 0 else '{' + t.content + '}')
        else:
            out.append('?' + name)
    return out


@lemma('P3.real-patterns', 'C16',
       quick=[{'N': 3, 'pA': 5, 'pB': 5, 'iA': True, 'iB': True, 'gB': 1}, {'N': 3, 'pA': 4, 'pB': 6, 'iA': True, 'iB': False, 'gB': 1},
              {'N': 3, 'pA': 6, 'pB': 4, 'iA': False, 'iB': True, 'gB': 1}],
       thorough=[{'N': 4, 'pA': a, 'pB': b, 'iA': ia, 'iB': ib, 'gB': 1, 'timeout': 3000}
                 for a, b in ((5, 5), (4, 6), (6, 4)) for ia in (True, False) for ib in (True, False)],
       timeout=300,
       covers=['span_tokenizer.py:tokenize', 'span_tokenizer.py:find_tokens', 'base_renderer.py:BaseRenderer.__init__',
               'span_token.py:add_token'],
       note='two custom SpanToken subclasses registered through HtmlRenderer; text over {x, <, >, {, }}')
def p3_real(s: str) -> bool:
    """
    pre: len(s) <= P('N')
    pre: in_alphabet(s, 'x<>{}')
    post: _
    """
    from mistletoe.html_renderer import HtmlRenderer
    from mistletoe import span_token, block_token
    Angle, Brace = _custom_classes()

    class R(HtmlRenderer):
        def __init__(self):
            super().__init__(Angle, Brace, process_html_tokens=False)

        def render_angle(self, t):
            return ''

        def render_brace(self, t):
            return ''
    before = (list(block_token._token_types), list(span_token._token_types))
    with R():
        inside = Angle in span_token._token_types and Brace in span_token._token_types
        kids = span_token.tokenize_inner(s)
    after = (list(block_token._token_types), list(span_token._token_types))
    if not inside or before != after:
        return False
    if Angle in span_token._token_types or Brace in span_token._token_types:
        return False
    import html
    return ''.join(_src(kids, [])) == html.unescape(s)


def in_alphabet(s, alphabet):
    for c in s:
        if c not in alphabet:
            return False
    return True


# ---------------------------------------------------------------------------------------
# P4: scope of custom tokens

@lemma('P4.scope', 'C16', timeout=120,
       covers=['base_renderer.py:BaseRenderer.__init__', 'base_renderer.py:BaseRenderer.__exit__',
               'span_token.py:add_token', 'block_token.py:add_token', 'span_token.py:reset_tokens', 'block_token.py:reset_tokens'],
       note='up to 3 custom classes of symbolic kind (span/block); raising inside the with-block included')
def p4_scope(k1: bool, k2: bool, k3: bool, j: int, boom: bool) -> bool:
    """
    pre: 0 <= j <= 3
    post: _
    """
    from mistletoe.html_renderer import HtmlRenderer
    from mistletoe import span_token, block_token
    defaults = ([getattr(block_token, n) for n in block_token.__all__], [getattr(span_token, n) for n in span_token.__all__])
    classes = []
    for i, is_span in enumerate((k1, k2, k3)[:j]):
        base = span_token.SpanToken if is_span else block_token.BlockToken
        classes.append(type('Cust%d' % i, (base,), {'pattern': __import__('re').compile('@%d' % i),
                                                    'start': staticmethod(lambda line: False)}))

    class R(HtmlRenderer):
        def __init__(self):
            super().__init__(*classes)

        def __getattr__(self, name):
            if name.startswith('render_cust'):
                return lambda t: ''
            raise AttributeError(name)
    ok = True
    try:
        with R():
            for c in classes:
                lst = span_token._token_types if issubclass(c, span_token.SpanToken) else block_token._token_types
                if c not in lst:
                    ok = False
            if boom:
                raise KeyError('inside')
    except KeyError:
        pass
    now = (list(block_token._token_types), list(span_token._token_types))
    return ok and now == defaults


# ---------------------------------------------------------------------------------------
# concretisation of abstract counter-examples through the public API

def _replay_abstract(n, cands):
    """Build real SpanToken subclasses whose find() returns MatchObj at the given coordinates,
    tokenize a real string of length n and check tiling + the documented rule."""
    from mistletoe.core_tokens import MatchObj
    from mistletoe.span_token import SpanToken, RawText
    text = ''.join(chr(ord('a') + i % 26) for i in range(n))
    classes = []
    for i, (s, e, a, b, p, inner) in enumerate(cands):
        def find(cls, string, s=s, e=e, a=a, b=b):
            return [MatchObj(s, e, (a, b, string[a:b]))]
        classes.append(type('K%d' % i, (SpanToken,), {'precedence': p, 'parse_inner': inner, 'parse_group': 1,
                                                      'find': classmethod(find), 'span': (s, e, a, b)}))
    toks = st.tokenize(text, classes + [RawText])

    def src(tokens):
        out = []
        for t in tokens:
            if isinstance(t, RawText):
                out.append(t.content)
            else:
                s, e, a, b = type(t).span
                if type(t).parse_inner:
                    out.append(text[s:a] + src(t.children) + text[b:e])
                else:
                    out.append(text[s:e])
        return ''.join(out)

    def names(tokens, depth=0, acc=None):
        acc = {} if acc is None else acc
        for t in tokens:
            if not isinstance(t, RawText):
                acc[type(t).__name__] = depth
                if type(t).parse_inner:
                    names(t.children, depth + 1, acc)
        return acc
    return text, src(toks), names(toks)


def replay_p1(n, s1, e1, a1, b1, p1, i1, s2, e2, a2, b2, p2, i2):
    text, got, where = _replay_abstract(n, [(s1, e1, a1, b1, p1, i1), (s2, e2, a2, b2, p2, i2)])
    dx, dy = where.get('K0', -1), where.get('K1', -1)
    if e1 <= s2:
        want = (0, 0)
    elif a1 <= s2 and e2 <= b1:
        want = (0, 1 if i1 else -1)
    elif p1 >= p2:
        want = (0, -1)
    else:
        want = (-1, 0)
    fails = got != text or (dx, dy) != want
    return fails, 'text=%r recovered=%r nesting depth (first, second)=%r expected %r' % (text, got, (dx, dy), want)


def replay_p2(n, *c):
    cands = [tuple(c[i:i + 6]) for i in range(0, 18, 6)]
    text, got, where = _replay_abstract(n, cands)
    d = tuple(where.get('K%d' % i, -1) for i in range(3))
    want = p2_expected(*cands)
    fails = got != text or (want is not None and d != want)
    return fails, 'text=%r recovered=%r nesting depths=%r expected %r' % (text, got, d, want)


p1_two.__lemma__.replay = replay_p1
p2_three.__lemma__.replay = replay_p2


# ---------------------------------------------------------------------------------------
# witness of the recorded finding

def witness_trailing_delimiter():
    """A later match wholly inside the earlier match's trailing delimiter is ignored even when
    it has the higher precedence (span_tokenizer.relation returns 3)."""
    # earlier: [0,6) parse group [1,3); later: [4,5) precedence 9 > 5
    text, got, where = _replay_abstract(6, [(0, 6, 1, 3, 5, True), (4, 5, 4, 5, 9, False)])
    fails = where.get('K1', -1) == -1 and where.get('K0', -1) == 0
    return fails, 'candidates (0,6,group 1..3,prec 5) and (4,5,prec 9) on %r: kept %r' % (text, where)
