"""C10 -- reflowing to a maximum line length preserves meaning and honours the limit."""
import re
from vfy.lemma import lemma, P, Duck, give_up
from vfy.lemmas.common import S, all_in, by, fixed, cp_in
from mistletoe.markdown_renderer import MarkdownRenderer, Fragment
from vfy.lemmas.c09 import SPELLINGS as SPELLINGS5, SP as SP5

ASSUMPTIONS = ['C10/W1b: words are duck strings that carry only a symbolic LENGTH and their identity (the fill algorithm never looks inside a word)',
               'C10/W3: blocks_to_lines is replaced by a recorder to observe the budget handed to the children']
OUTSIDE = ['documents beyond the W4 bound', 'the recorded class "a wrapped word looks like a block marker" (excluded by the property itself)']


class LenStr(Duck):
    """string known only by its length, the ids of the words it is made of, and the number of
    trailing blanks of its last word (a word that precedes a hard line break spelled with spaces ends in them)"""
    def __init__(self, n, ids, trail=0):
        self.n, self.ids, self.trail = n, ids, trail

    def __len__(self):
        return self.n

    def __bool__(self):
        return True if self.n > 0 else False

    def __add__(self, o):
        if isinstance(o, str):
            return LenStr(self.n + len(o), self.ids, len(o) - len(o.rstrip()) if o.strip() == '' and o != '' else 0)
        return LenStr(self.n + o.n, self.ids + o.ids, o.trail)

    def __radd__(self, o):
        return LenStr(len(o) + self.n, self.ids, self.trail)

    def rstrip(self, chars=None):
        return LenStr(self.n - self.trail, self.ids, 0)

    def __eq__(self, o):
        return False

    __hash__ = None


@lemma('W1b.greedy-fill', 'C10', quick=[{'k': k} for k in (1, 2, 3, 4)], thorough=[{'k': k} for k in (1, 2, 3, 4, 5, 6)], timeout=600,
       stubs=['make_words -> k words of symbolic length (LenStr)', 'hard breaks as the literal word "\\n" at symbolic positions'],
       covers=['markdown_renderer.py:MarkdownRenderer.fragments_to_lines'],
       note='ALL integer word lengths >= 1 and limits L >= 1: every emitted line is <= L long or a single word; words come out in order, none lost; a hard break ends the line')
def w1b_fill(n1: int, n2: int, n3: int, n4: int, n5: int, n6: int, h1: bool, h2: bool, h3: bool, h4: bool, h5: bool, L: int, t: int) -> bool:
    """
    pre: n1 >= 1 and n2 >= 1 and n3 >= 1 and n4 >= 1 and n5 >= 1 and n6 >= 1 and L >= 1 and 0 <= t <= 3
    post: _
    """
    k = P('k')
    ns = [n1, n2, n3, n4, n5, n6][:k]
    hs = [h1, h2, h3, h4, h5][:k - 1]
    words = []
    for i, n in enumerate(ns):
        hard = i < len(hs) and hs[i]
        # a word before a hard break carries the break's t trailing blanks (t = 0: backslash spelling)
        words.append(LenStr(n + (t if hard else 0), (i,), t if hard else 0))
        if hard:
            words.append('\n')
    ns = [w.n for w in words if not isinstance(w, str)]

    class R(MarkdownRenderer):
        @classmethod
        def make_words(cls, fragments):
            return iter(words)
    lines = list(R.fragments_to_lines([], max_line_length=L))
    order = []
    for ln in lines:
        if isinstance(ln, str):
            if ln != '':
                return False         # only an empty line (two hard breaks in a row) may be a plain str
            continue
        if len(ln) > L and len(ln.ids) != 1:
            return False
        if len(ln) != sum(ns[i] for i in ln.ids) + len(ln.ids) - 1:
            return False             # words joined by exactly one space
        order.extend(ln.ids)
    if order != list(range(k)):
        return False
    # greedy: a word that starts a new line would not have fitted on the previous one;
    # a hard break always ends its line
    prev = None
    for ln in lines:
        if isinstance(ln, str):
            prev = None
            continue
        first = ln.ids[0]
        if prev is not None and not (first > 0 and first - 1 < len(hs) and hs[first - 1]):
            if len(prev) + 1 + ns[first] <= L:
                return False
        prev = ln
    for i, h in enumerate(hs):
        if h:
            for ln in lines:
                if not isinstance(ln, str) and i in ln.ids and (i + 1) in ln.ids:
                    return False
    return True


WS = ' \n\t'
# (named constant: CrossHair reads the contract from the SOURCE text, where a backslash escape inside the docstring would be doubled)
W1A_ALPH = 'x \n\t'


def _oracle_words(frags):
    """string-level oracle for make_words: mark every breakable white space run, then split"""
    MARK = '\x00'
    buf = []
    for text, wordwrap, hard in frags:
        if wordwrap:
            buf.append(re.sub(r'\s+', MARK, text))
        elif hard:
            buf.append(text[:-1] + MARK + '\n' + MARK)
        else:
            buf.append(text)
    return [w for w in ''.join(buf).split(MARK) if w != '']


@lemma('W1a.make-words', 'C10', quick=[{'k1': a, 'k2': b, 'wa': wa, 'wb': wb} for a, b in ((1, 1), (2, 1), (1, 2)) for wa in (False, True) for wb in (False, True)],
       thorough=[{'k1': a, 'k2': b, 'wa': wa, 'wb': wb} for a in (0, 1, 2, 3) for b in (0, 1, 2, 3) for wa in (False, True) for wb in (False, True)], timeout=900,
       covers=['markdown_renderer.py:MarkdownRenderer.make_words'],
       note='two fragments + a trailing hard/soft break fragment; texts over {x, space, newline, tab} of each length; per-fragment wordwrap flag symbolic')
def w1a_words(a1: int, a2: int, a3: int, b1: int, b2: int, b3: int, wa: bool, wb: bool, hard: bool) -> bool:
    """
    pre: all_in(W1A_ALPH, P('k1'), a1, a2, a3) and all_in(W1A_ALPH, P('k2'), b1, b2, b3)
    pre: fixed(wa, 'wa') and fixed(wb, 'wb')
    post: _
    """
    ta = S(P('k1'), a1, a2, a3)
    tb = S(P('k2'), b1, b2, b3)
    frs = [(ta, wa, False), (tb, wb, False), ('  \n' if hard else '\n', not hard, hard), ('x', True, False)]
    frags = [Fragment(t, wordwrap=w, hard_line_break=h) for t, w, h in frs]
    got = list(MarkdownRenderer.make_words(frags))
    return got == _oracle_words(frs)


class _Tok:
    def __init__(self, **kw):
        self.__dict__.update(kw)
        self.children = []


@lemma('W3.budget', 'C10', timeout=300,
       stubs=['blocks_to_lines -> recorder', 'prefix_lines -> identity (prefix text is C09-M3)'],
       covers=['markdown_renderer.py:MarkdownRenderer.render_quote', 'markdown_renderer.py:MarkdownRenderer.render_list_item'],
       note='ALL integers L >= 1; indentation 0..3, leader length 1..10, padding 1..4 (what ListItem.parse_marker can deliver): the child budget is L - prefix when that is >= 1, and wrapping stays ON for the child whenever it is on for the parent')
def w3_budget(L: int, prepend: int, indentation: int, nlead: int, normalize: bool, quote: bool) -> bool:
    """
    pre: L >= 1 and 0 <= indentation <= 3 and 1 <= nlead <= 10 and indentation + nlead + 1 <= prepend <= indentation + nlead + 4
    post: _
    """
    from mistletoe import block_token, span_token
    seen = []
    try:
        r = MarkdownRenderer(max_line_length=L, normalize_whitespace=normalize)
        r.blocks_to_lines = lambda tokens, max_line_length: (seen.append(max_line_length), ['x'])[1]
        r.prefix_lines = lambda lines, first, following=None: list(lines)    # M3 (C09) is about the prefixes
        if quote:
            lines = list(r.render_quote(_Tok(), max_line_length=L))
            prefix = 2
        else:
            tok = _Tok(leader=LenStr(nlead, ()), prepend=prepend, indentation=indentation)
            lines = list(r.render_list_item(tok, max_line_length=L))
            prefix = nlead + 1 if normalize else prepend
    finally:
        block_token.reset_tokens()
        span_token.reset_tokens()
    if len(seen) == 0:
        give_up('blocks_to_lines was not called')
    if len(seen) != 1:
        return False
    child = seen[0]
    if not child:                  # None or 0: wrapping switched off for the child although the parent wraps
        return False
    if L - prefix >= 1:
        return child == L - prefix
    return child >= 1


W4_ALPH = 'a \n>-*`'


def norm_html(h):
    return ' '.join(h.split())


def marker_like(w):
    """a prose word that would be taken for a block marker if a line break put it at the start of a
    line (over the W4 alphabet): block-quote marker, bullet, thematic break / setext underline, fence"""
    if w == '':
        return False
    if w[0] == '>':
        return True
    if w == '-' or w == '*' or w.startswith('```'):
        return True
    dash = True
    star = True
    for ch in w:
        if ch != '-':
            dash = False
        if ch != '*':
            star = False
    return dash or (star and len(w) >= 3)


def words_inert(s):
    """the property's side condition: no word that is NOT already first on its line looks like a block marker"""
    for line in s.split('\n'):
        first = True
        for w in line.split(' '):
            if w == '':
                continue
            if not first and marker_like(w):
                return False
            first = False
    return True


@lemma('W4.meaning', 'C10', quick=by('c1', list('a>-'), by('c2', list(W4_ALPH), [{'k': 3}])), thorough=by('c1', list(W4_ALPH), by('c2', list(W4_ALPH), [{'k': 3}, {'k': 4, 'timeout': 3000}])),
       timeout=900, per_path=120,
       covers=['markdown_renderer.py:MarkdownRenderer.render', 'markdown_renderer.py:MarkdownRenderer.fragments_to_lines',
               'markdown_renderer.py:MarkdownRenderer.render_quote', 'markdown_renderer.py:MarkdownRenderer.render_list_item'],
       note='whole pipeline, documents of k characters over {a, space, newline, >, -, *, `}, L >= 1 an unbounded symbolic int: same meaning, bound honoured, second reflow is the identity')
def w4_meaning(c1: int, c2: int, c3: int, c4: int, L: int) -> bool:
    """
    pre: fixed(c1, 'c1') and fixed(c2, 'c2') and all_in(W4_ALPH, P('k'), c1, c2, c3, c4) and L >= 1
    pre: words_inert(S(P('k'), c1, c2, c3, c4))
    post: _
    """
    import mistletoe
    from mistletoe import Document
    s = S(P('k'), c1, c2, c3, c4)
    with MarkdownRenderer(max_line_length=L) as r:
        t = r.render(Document(s))
    with MarkdownRenderer(max_line_length=L) as r:
        t2 = r.render(Document(t))
    if norm_html(mistletoe.markdown(t)) != norm_html(mistletoe.markdown(s)):
        return False
    return t2 == t


def w5_replay(c1, L):
    from vfy.lemmas.c09 import round_trip_ok, describe_round_trip
    s = SPELLINGS5[P('sk')].format(chr(c1))
    if not (L >= 1 and chr(c1) in SP5 and words_inert(s)):
        return False, 'pre-condition false'
    try:
        ok = round_trip_ok(s, False, L)
    except Exception as e:
        return True, 'reflow of %r at L=%d raised %s: %s' % (s, L, type(e).__name__, e)
    return (not ok), describe_round_trip(s, False, L)


@lemma('W5.spellings', 'C10', replay=w5_replay, quick=[{'sk': k} for k in sorted(SPELLINGS5)], timeout=900, per_path=120,
       covers=['markdown_renderer.py:MarkdownRenderer.render', 'markdown_renderer.py:MarkdownRenderer.fragments_to_lines', 'markdown_renderer.py:MarkdownRenderer.render_setext_heading',
               'markdown_renderer.py:MarkdownRenderer.render_heading', 'markdown_renderer.py:MarkdownRenderer.render_thematic_break', 'markdown_renderer.py:MarkdownRenderer.render_table'],
       note='the spelling skeletons of C09-M5 (one symbolic character at two or three places of a construct) reflowed with L >= 1 an unbounded symbolic int: '
            'same meaning up to white space, same link definitions, second reflow is the identity')
def w5_spellings(c1: int, L: int) -> bool:
    """
    pre: all_in(SP5, 1, c1) and L >= 1
    pre: words_inert(SPELLINGS5[P('sk')].format(chr(c1)))
    post: _
    """
    from vfy.lemmas.c09 import round_trip_ok
    return round_trip_ok(SPELLINGS5[P('sk')].format(chr(c1)), False, L)


LAYOUT6 = ' \na'


@lemma('W6.layout', 'C10', quick=by('c1', list(LAYOUT6), [{'k': 4}]), thorough=by('c1', list(LAYOUT6), [{'k': 4}, {'k': 5, 'timeout': 3000}]), timeout=900, per_path=120,
       covers=['block_token.py:BlockCode.start', 'markdown_renderer.py:MarkdownRenderer.render_block_code', 'markdown_renderer.py:MarkdownRenderer.fragments_to_lines'],
       note='documents of k = 4..5 characters over {space, newline, a} (indentation and blank-line layout only), L >= 1 an unbounded symbolic int: same meaning up to white space, second reflow is the identity')
def w6_layout(c1: int, c2: int, c3: int, c4: int, c5: int, L: int) -> bool:
    """
    pre: fixed(c1, 'c1') and all_in(LAYOUT6, P('k'), c1, c2, c3, c4, c5) and L >= 1
    post: _
    """
    from vfy.lemmas.c09 import round_trip_ok
    return round_trip_ok(S(P('k'), c1, c2, c3, c4, c5), False, L)


def witness_budget_zero():
    """(fixed) child budget 0 switched wrapping off: '- a b' at max_line_length=2 came back unwrapped"""
    from mistletoe import Document
    with MarkdownRenderer(max_line_length=2) as r:
        out = r.render(Document('- a b\n'))
    return out == '- a b\n', 'MarkdownRenderer(max_line_length=2).render(Document("- a b")) = %r' % out
