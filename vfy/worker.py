"""One E1 job: analyse one lemma (with one parameter set) symbolically with CrossHair+z3.

    python -m vfy.worker MODULE:FUNC PARAMS_JSON TIMEOUT PER_PATH [--twin] [--deny JSON] [--noplug]

Prints one line `RESULT <json>`.
"""
import ast
import collections
import importlib
import json
import os
import re
import sys
import time
import types


def parse_call(message):
    """Extract the concrete arguments from a CrossHair message '... when calling f(a, b)'"""
    m = re.search(r'when calling (\w+)\((.*)\)(?: \(which (?:returns|raises).*\))?\s*$', message, re.S)
    if not m:
        return None
    src = 'f(%s)' % m.group(2)
    try:
        call = ast.parse(src, mode='eval').body
    except SyntaxError:
        # the trailing "(which returns ...)" may contain parens; trim greedily from the right
        body = m.group(2)
        call = None
        for i in range(len(body), 0, -1):
            if body[i - 1] == ')':
                try:
                    call = ast.parse('f(%s' % body[:i], mode='eval').body
                    break
                except SyntaxError:
                    continue
        if call is None:
            return None
    try:
        args = [ast.literal_eval(a) for a in call.args]
        kwargs = {k.arg: ast.literal_eval(k.value) for k in call.keywords}
    except Exception:
        return None
    return args, kwargs


def instrument(called):
    """Wrap every function defined in the live mistletoe modules so that the evidence can
    list the functions that were actually executed (symbolically) by this job."""
    import mistletoe
    import pkgutil
    mods = []
    for mi in pkgutil.walk_packages(mistletoe.__path__, 'mistletoe.'):
        if mi.name in sys.modules:
            mods.append(sys.modules[mi.name])

    def wrap(f, label):
        def w(*a, **k):
            called.add(label)
            return f(*a, **k)
        w.__name__ = getattr(f, '__name__', 'f')
        w.__qualname__ = getattr(f, '__qualname__', 'f')
        w.__doc__ = f.__doc__
        w.__wrapped_by_vfy__ = f
        w.__module__ = f.__module__
        w.__dict__.update(getattr(f, '__dict__', {}))
        try:
            w.__signature__ = __import__('inspect').signature(f)
        except (TypeError, ValueError):
            pass
        return w

    for mod in mods:
        short = mod.__name__.replace('mistletoe.', '')
        for k, v in list(vars(mod).items()):
            if isinstance(v, types.FunctionType) and v.__module__ == mod.__name__:
                setattr(mod, k, wrap(v, '%s.py:%s' % (short, k)))
            elif isinstance(v, type) and v.__module__ == mod.__name__ and v.__name__ == k:
                for kk, vv in list(vars(v).items()):
                    if kk in ('__new__', '__init_subclass__', '__class_getitem__', '__getattr__'):
                        continue
                    label = '%s.py:%s.%s' % (short, k, kk)
                    if isinstance(vv, types.FunctionType):
                        setattr(v, kk, wrap(vv, label))
                    elif isinstance(vv, staticmethod):
                        setattr(v, kk, staticmethod(wrap(vv.__func__, label)))
                    elif isinstance(vv, classmethod):
                        setattr(v, kk, classmethod(wrap(vv.__func__, label)))
    # names imported with `from x import f` keep pointing at the unwrapped function:
    # rebind those too, so calls through them are recorded as well.
    for mod in mods:
        for k, v in list(vars(mod).items()):
            if isinstance(v, types.FunctionType) and not hasattr(v, '__wrapped_by_vfy__'):
                home = sys.modules.get(v.__module__)
                if home is not None and home in mods:
                    cur = getattr(home, v.__name__, None)
                    if cur is not None and getattr(cur, '__wrapped_by_vfy__', None) is v:
                        setattr(mod, k, cur)


def main(argv):
    target, params_json, timeout, per_path = argv[0], argv[1], float(argv[2]), float(argv[3])
    twin = '--twin' in argv
    noplug = '--noplug' in argv
    noinstr = '--noinstr' in argv
    deny = []
    if '--deny' in argv:
        deny = json.loads(argv[argv.index('--deny') + 1])
    modname, fname = target.split(':')
    t0 = time.time()
    import vfy.lemma as L
    L.PARAMS = json.loads(params_json)
    L.TWIN = twin
    from crosshair.core_and_libs import analyze_function, run_checkables, MessageType
    from crosshair.options import AnalysisOptionSet
    import crosshair.core as core
    import crosshair.statespace as ss
    import z3
    mod = importlib.import_module(modname)
    fn = getattr(mod, fname)
    meta = fn.__lemma__
    if meta.plug and not noplug:
        import vfy.plug
        vfy.plug.install(deny=deny)
    called = set()
    if not noinstr:
        instrument(called)

    # solver statistics
    sstat = {'queries': 0, 'seconds': 0.0, 'unknown': 0}
    orig_check = z3.Solver.check

    def timed_check(self, *a, **k):
        t = time.perf_counter()
        r = orig_check(self, *a, **k)
        sstat['seconds'] += time.perf_counter() - t
        sstat['queries'] += 1
        if r == z3.unknown:
            sstat['unknown'] += 1
        return r
    z3.Solver.check = timed_check

    # path statistics
    pstat = {'paths': 0, 'nontrivial': 0, 'confirmed': 0, 'max_decisions': 0}
    orig_bubble = ss.StateSpace.bubble_status

    def bubble(self, analysis):
        pstat['paths'] += 1
        n = len(self.choices_made)
        if n:
            pstat['nontrivial'] += 1
            pstat['max_decisions'] = max(pstat['max_decisions'], n)
        return orig_bubble(self, analysis)
    ss.StateSpace.bubble_status = bubble
    orig_act = core.analyze_calltree

    def act(options, conditions):
        r = orig_act(options, conditions)
        pstat['confirmed'] += r.num_confirmed_paths
        return r
    core.analyze_calltree = act

    def _too_many_give_ups():
        r = {'lemma': target, 'name': meta.name, 'params': L.PARAMS, 'twin': twin, 'verdict': 'UNKNOWN',
             'message': 'stopped after %d path(s) on which the harness gave up: %s' % (len(L.GIVE_UPS), sorted(set(L.GIVE_UPS))[:3]),
             'give_ups': len(L.GIVE_UPS), 'paths': pstat['paths'], 'nontrivial_paths': pstat['nontrivial'],
             'confirmed_paths': pstat['confirmed'], 'max_decisions': pstat['max_decisions'], 'solver_queries': sstat['queries'],
             'solver_s': round(sstat['seconds'], 3), 'solver_unknown': sstat['unknown'], 'wall_s': round(time.time() - t0, 2),
             'functions': sorted(called)}
        print('RESULT ' + json.dumps(r))
        sys.stdout.flush()
        os._exit(0)
    L.ON_GIVE_UP_LIMIT = _too_many_give_ups

    stats = collections.Counter()
    opts = AnalysisOptionSet(per_condition_timeout=timeout, per_path_timeout=per_path, report_all=True,
                             stats=stats, max_uninteresting_iterations=0)
    res = {'lemma': target, 'name': meta.name, 'params': L.PARAMS, 'twin': twin}
    # never assume a callee's contract instead of executing it
    core.ShortCircuitingContext.make_interceptor = lambda self, original: original
    try:
        checkables = analyze_function(fn, opts)
        if not checkables:
            raise RuntimeError('no conditions found on lemma')
        if twin:
            # reachability twin: same pre-conditions, post-condition False.  It must be REFUTED,
            # i.e. some input satisfies the pre-conditions and runs the lemma to its end.
            from dataclasses import replace as _replace
            from crosshair.condition_parser import ConditionExpr, ConditionExprType
            for c in checkables:
                old = c.conditions.post[0]
                c.conditions = _replace(c.conditions, post=[ConditionExpr(
                    ConditionExprType.POSTCONDITION, (lambda v: False), old.filename, old.line, 'False (reachability twin)')])
        msgs = run_checkables(checkables)
    except Exception as e:  # harness problem
        import traceback
        res.update(verdict='ERROR', message='%s: %s' % (type(e).__name__, e), trace=traceback.format_exc(limit=8))
        msgs = []
    verdicts = []
    for m in msgs:
        st = m.state
        if st == MessageType.CONFIRMED:
            verdicts.append(('CONFIRMED', m.message, None))
        elif st in (MessageType.POST_FAIL, MessageType.EXEC_ERR, MessageType.POST_ERR):
            verdicts.append(('REFUTED', m.message, parse_call(m.message)))
        elif st == MessageType.PRE_UNSAT:
            verdicts.append(('PRE_UNSAT', m.message, None))
        elif st == MessageType.CANNOT_CONFIRM:
            verdicts.append(('UNKNOWN', m.message, None))
        elif st == MessageType.SYNTAX_ERR:
            verdicts.append(('ERROR', 'contract syntax: ' + m.message, None))
        else:
            verdicts.append(('UNKNOWN', '%s: %s' % (st.name, m.message), None))
    if 'verdict' not in res:
        order = ['ERROR', 'REFUTED', 'PRE_UNSAT', 'UNKNOWN', 'CONFIRMED']
        verdicts.sort(key=lambda v: order.index(v[0]))
        if not verdicts:
            res.update(verdict='UNKNOWN', message='no message from CrossHair')
        else:
            v, msg, call = verdicts[0]
            res.update(verdict=v, message=msg[:2000])
            if call is not None:
                res['args'], res['kwargs'] = call
            elif v == 'REFUTED':
                res['args_unparsed'] = True
    if L.GIVE_UPS and res.get('verdict') == 'CONFIRMED':
        # CrossHair silently skips ignored paths: a lemma that gave up somewhere is NOT confirmed
        res.update(verdict='UNKNOWN', message='%d path(s) gave up: %s' % (len(L.GIVE_UPS), sorted(set(L.GIVE_UPS))[:3]))
    res['give_ups'] = len(L.GIVE_UPS)
    res.update(paths=pstat['paths'], nontrivial_paths=pstat['nontrivial'], confirmed_paths=pstat['confirmed'],
               max_decisions=pstat['max_decisions'], solver_queries=sstat['queries'],
               solver_s=round(sstat['seconds'], 3), solver_unknown=sstat['unknown'],
               wall_s=round(time.time() - t0, 2), functions=sorted(called), chx_stats=dict(stats))
    print('RESULT ' + json.dumps(res))
    sys.stdout.flush()


if __name__ == '__main__':
    main(sys.argv[1:])
