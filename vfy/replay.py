"""Concrete replay of a counter-example on the plain interpreter (no CrossHair, no plug-ins).

    /venv/bin/python -m vfy.replay MODULE:FUNC PARAMS_JSON ARGS_JSON

exit 0 and prints REPRODUCED ... if the lemma fails on these arguments against the code in
/repo; prints NOT-REPRODUCED ... (exit 4) otherwise.  A lemma may define its own replay
(`replay=` in @lemma) that first concretises an abstract state through the public API.
"""
import importlib
import json
import sys


def replay(target, params, args):
    import vfy.lemma as L
    L.PARAMS = params
    L.TWIN = False
    L.CONCRETE = True
    modname, fname = target.split(':')
    mod = importlib.import_module(modname)
    fn = getattr(mod, fname)
    meta = fn.__lemma__
    if meta.replay is not None:
        ok, detail = meta.replay(*args)
        return ('FAILS' if ok else 'HOLDS'), detail
    return L.run_concrete(fn, args)


def main(argv):
    target, params, args = argv[0], json.loads(argv[1]), json.loads(argv[2])
    if 'crosshair' in sys.modules:
        print('NOT-REPRODUCED replay must run without CrossHair')
        return 5
    status, detail = replay(target, params, args)
    if status == 'FAILS':
        print('REPRODUCED %s args=%r\n%s' % (target, args, detail))
        return 0
    print('NOT-REPRODUCED (%s) %s args=%r\n%s' % (status, target, args, detail))
    return 4


if __name__ == '__main__':
    sys.exit(main(sys.argv[1:]))
