"""One E2 job:  python -m vfy.rxworker MODULE:FUNC PARAMS_JSON TIMEOUT  -> `RESULT <json>`"""
import importlib
import json
import sys
import time


def main(argv):
    target, params = argv[0], json.loads(argv[1])
    import vfy.lemma as L
    L.PARAMS = params
    modname, fname = target.split(':')
    t0 = time.time()
    fn = getattr(importlib.import_module(modname), fname)
    try:
        res = fn()
    except Exception as e:
        import traceback
        res = {'verdict': 'ERROR', 'message': '%s: %s' % (type(e).__name__, e), 'trace': traceback.format_exc(limit=8)}
    res.setdefault('message', '')
    res.update(lemma=target, name=fn.__lemma__.name, params=params, twin=False, paths=0, nontrivial_paths=res.get('queries', 0),
               confirmed_paths=0, solver_queries=res.get('queries', 0), solver_s=round(res.get('solver_s', 0), 3),
               wall_s=round(time.time() - t0, 2), functions=list(fn.__lemma__.covers))
    print('RESULT ' + json.dumps(res))


if __name__ == '__main__':
    main(sys.argv[1:])
