"""./check <property> [--tier quick|thorough] [--only substr] [--replay path] [--jobs N]

Decides one property: runs the plug-in gate, every lemma job of the tier (CrossHair+z3 on
the live /repo functions, E1) and every regular-language query (z3, E2) in parallel,
replays counter-examples on the plain interpreter, applies the known-findings file and
writes /verif/evidence/<id>.json.  Exit 0 = held on everything explored; 1 = VIOLATION
(replayed); 2 = harness error (a counter-example that does not reproduce, a broken contract).
"""
import argparse
import concurrent.futures as cf
import hashlib
import importlib
import json
import os
import subprocess
import sys
import time

ROOT = os.path.dirname(os.path.dirname(os.path.abspath(__file__)))
PY = os.path.join(ROOT, '.venv', 'bin', 'python')
PLAIN_PY = '/venv/bin/python'
REPO = os.environ.get('VERIF_REPO', '/repo').rstrip('/')
ENV = dict(os.environ, PYTHONPATH='%s:%s' % (ROOT, REPO), PYTHONDONTWRITEBYTECODE='1', PYTHONHASHSEED='0')


def sh(cmd, timeout):
    t0 = time.time()
    try:
        p = subprocess.run(cmd, env=ENV, cwd=ROOT, capture_output=True, text=True, timeout=timeout)
        return p.returncode, p.stdout, p.stderr, time.time() - t0
    except subprocess.TimeoutExpired as e:
        out = e.stdout.decode() if isinstance(e.stdout, bytes) else (e.stdout or '')
        err = e.stderr.decode() if isinstance(e.stderr, bytes) else (e.stderr or '')
        return -9, out, err + '\n[wall timeout]', time.time() - t0


def parse_result(out):
    for line in reversed(out.splitlines()):
        if line.startswith('RESULT '):
            try:
                return json.loads(line[7:])
            except ValueError:
                return None
    return None


def gate_cached(budget, jobs, log):
    """The gate depends only on the live patterns/sets, the plug-in sources and the tool
    versions; its result is cached under that key (cache is outside git)."""
    import re as _re
    sys.path.insert(0, REPO)
    from vfy.plug import gate as G
    h = hashlib.sha256()
    inv = G.inventory()
    for k in sorted(inv):
        h.update(('%s\0%s\0%d\n' % (k, inv[k].pattern, inv[k].flags)).encode())
    from mistletoe import core_tokens as ct
    for name in ('punctuation', 'unicode_whitespace', 'whitespace'):
        h.update(''.join(sorted(getattr(ct, name))).encode('utf-8', 'surrogatepass'))
    pdir = os.path.join(ROOT, 'vfy', 'plug')
    for fn in sorted(os.listdir(pdir)):
        if fn.endswith('.py'):
            h.update(open(os.path.join(pdir, fn), 'rb').read())
    h.update(('budget=%d' % budget).encode())
    key = h.hexdigest()[:24]
    cdir = os.path.join(ROOT, '.cache')
    os.makedirs(cdir, exist_ok=True)
    path = os.path.join(cdir, 'gate-%s.json' % key)
    if os.path.exists(path) and not os.environ.get('VERIF_NOCACHE'):
        try:
            r = json.load(open(path))
            r['cached'] = True
            return r
        except ValueError:
            pass
    code = ('import json,sys; from vfy.plug import gate as G; '
            'print("RESULT "+json.dumps(G.run(budget=%d, jobs=%d)))' % (budget, jobs))
    rc, out, err, dt = sh([PY, '-c', code], 1800)
    r = parse_result(out)
    if r is None:
        log('gate failed: rc=%s %s' % (rc, err[-800:]))
        return {'error': 'gate did not finish', 'deny': [], 'cases': 0, 'patterns': {}, 'wall_s': dt}
    r['cached'] = False
    tmp = path + '.%d' % os.getpid()
    json.dump(r, open(tmp, 'w'))
    os.replace(tmp, path)
    return r


def load_findings(pid):
    path = os.path.join(ROOT, 'known_findings.json')
    if not os.path.exists(path):
        return []
    return [f for f in json.load(open(path)).get('findings', []) if f.get('property') == pid]


def write_replay(pid, job, res):
    d = os.path.join(ROOT, 'replays', pid)
    os.makedirs(d, exist_ok=True)
    args = res.get('args') or []
    blob = json.dumps([job['target'], job['params'], args], sort_keys=True)
    hsh = hashlib.sha1(blob.encode()).hexdigest()[:10]
    path = os.path.join(d, '%s-%s.py' % (job['name'].replace('/', '_'), hsh))
    with open(path, 'w') as f:
        f.write('#!/venv/bin/python\n'
                '"""Replay of a counter-example found by ./check %s (lemma %s).\n'
                'Runs the lemma on these concrete arguments with the plain interpreter against /repo."""\n'
                'import os, subprocess, sys\n'
                'TARGET = %r\nPARAMS = %r\nARGS = %r\n'
                'env = dict(os.environ, PYTHONPATH=%r)\n'
                'sys.exit(subprocess.call([%r, "-m", "vfy.replay", TARGET, PARAMS, ARGS], env=env, cwd=%r))\n'
                % (pid, job['name'], job['target'], json.dumps(job['params']), json.dumps(args),
                   '%s:%s' % (ROOT, REPO), PLAIN_PY, ROOT))
    os.chmod(path, 0o755)
    return path


def main(argv=None):
    ap = argparse.ArgumentParser()
    ap.add_argument('prop')
    ap.add_argument('--tier', default=os.environ.get('VERIF_TIER', 'quick'), choices=['quick', 'thorough'])
    ap.add_argument('--only', default=None)
    ap.add_argument('--replay', default=None)
    ap.add_argument('--jobs', type=int, default=int(os.environ.get('VERIF_JOBS', os.cpu_count() or 4)))
    ap.add_argument('--no-evidence', action='store_true')
    ap.add_argument('--budget', type=int, default=None,
                    help='wall seconds after which no further obligation is STARTED (0 = none); default: none for quick, '
                         'VERIF_BUDGET or 600 for thorough.  Obligations not started are reported as not attempted (inconclusive)')
    ap.add_argument('--cap', type=int, default=None,
                    help='upper limit on the per-obligation time budget (0 = none); default: none for quick, VERIF_JOB_CAP or 900 for thorough')
    ap.add_argument('-v', action='store_true')
    a = ap.parse_args(argv)
    pid = a.prop.upper()
    seed = int(os.environ.get('VERIF_SEED', '0') or 0)
    if a.budget is None:
        a.budget = 0 if a.tier == 'quick' else int(os.environ.get('VERIF_BUDGET', '600') or 0)
    if a.cap is None:
        a.cap = 0 if a.tier == 'quick' else int(os.environ.get('VERIF_JOB_CAP', '900') or 0)
    if a.replay:
        return subprocess.call([a.replay])
    t_start = time.time()
    lines = []

    def log(msg):
        print(msg)
        sys.stdout.flush()
        lines.append(msg)

    modname = 'vfy.lemmas.%s' % pid.lower()
    try:
        mod = importlib.import_module(modname)
    except Exception as e:
        import traceback
        traceback.print_exc()
        log('HARNESS-ERROR cannot import %s: %s' % (modname, e))
        return 2
    import vfy.lemma as L
    metas = [m for m in L.REGISTRY.values() if m.prop == pid]
    metas.sort(key=lambda m: m.name)
    if a.only:
        metas = [m for m in metas if a.only in m.name]

    if hasattr(mod, 'prepare'):
        try:
            mod.prepare()
        except Exception as e:
            log('HARNESS-ERROR prepare() of %s failed: %r' % (modname, e))
            return 2

    # ---- plug-in gate -------------------------------------------------------------
    budget = 1500 if a.tier == 'quick' else 12000
    gate = gate_cached(budget, a.jobs, log) if any(m.plug for m in metas) else {'deny': [], 'cases': 0, 'patterns': {}, 'skipped': True}
    deny = gate.get('deny', [])
    gate_bad = {k: v for k, v in gate.get('patterns', {}).items()
                if any(o['disagreements'] for o in v['ops'].values())}
    log('gate: %d differential cases, %d pattern(s) denied, str-method disagreements: %s%s'
        % (gate.get('cases', 0), len(deny), gate.get('deny_str', []), ' (cached)' if gate.get('cached') else ''))

    # ---- jobs ---------------------------------------------------------------------
    jobs = []
    for m in metas:
        plist = m.quick if a.tier == 'quick' else m.thorough
        quick_keys = set()
        for qp in m.quick:
            qp = dict(qp)
            qp.pop('timeout', None)
            qp.pop('per_path', None)
            quick_keys.add(json.dumps(qp, sort_keys=True))
        for i, params in enumerate(plist):
            params = dict(params)
            timeout = params.pop('timeout', m.timeout)
            if a.cap:
                timeout = min(timeout, a.cap)
            per_path = params.pop('per_path', m.per_path)
            target = '%s:%s' % (m.fn.__module__, m.fn.__name__)
            base = {'name': m.name, 'target': target, 'params': params, 'timeout': timeout, 'per_path': per_path,
                    'kind': getattr(m, 'kind', 'chx'), 'meta': m,
                    'in_quick': json.dumps(params, sort_keys=True) in quick_keys}
            jobs.append(dict(base, twin=False, canary=False))
            if base['kind'] == 'chx':
                jobs.append(dict(base, twin=True, canary=False, timeout=m.twin_timeout))
        for params in getattr(m, 'canary', []):
            params = dict(params)
            timeout = params.pop('timeout', m.timeout)
            per_path = params.pop('per_path', m.per_path)
            target = '%s:%s' % (m.fn.__module__, m.fn.__name__)
            jobs.append({'name': m.name, 'target': target, 'params': params, 'timeout': timeout, 'per_path': per_path,
                         'kind': 'chx', 'meta': m, 'twin': False, 'canary': True})
    rnd = __import__('random').Random(seed)
    rnd.shuffle(jobs)
    if a.budget:
        # the obligations of the quick tier first (longest first), then the deeper ones, cheapest first
        jobs.sort(key=lambda j: (0, -j['timeout']) if (j.get('in_quick') or j.get('canary')) else (1, j['timeout']))
    else:
        jobs.sort(key=lambda j: -j['timeout'])

    def run_job(j):
        if a.budget and time.time() - t_start > a.budget and not (j.get('in_quick') or j.get('canary')):
            return j, {'verdict': 'NOT-RUN', 'message': 'not started: wall budget of %d s used up' % a.budget, 'paths': 0,
                       'nontrivial_paths': 0, 'confirmed_paths': 0, 'solver_queries': 0, 'solver_s': 0, 'wall_s': 0, 'functions': []}
        if j['kind'] == 'chx':
            cmd = [PY, '-m', 'vfy.worker', j['target'], json.dumps(j['params']), str(j['timeout']), str(j['per_path'])]
            if j['twin']:
                cmd.append('--twin')
            if deny:
                cmd += ['--deny', json.dumps(deny)]
        else:
            cmd = [PY, '-m', 'vfy.rxworker', j['target'], json.dumps(j['params']), str(j['timeout'])]
        for attempt in (1, 2):
            rc, out, err, dt = sh(cmd, j['timeout'] * 1.6 + 90)
            res = parse_result(out)
            if res is not None:
                break
        if res is None:
            res = {'verdict': 'DIED', 'message': 'worker gave no result (rc=%s): %s' % (rc, err[-600:]),
                   'paths': 0, 'nontrivial_paths': 0, 'confirmed_paths': 0, 'solver_queries': 0, 'solver_s': 0,
                   'wall_s': round(dt, 1), 'functions': []}
        return j, res

    results = []
    with cf.ThreadPoolExecutor(max_workers=max(1, a.jobs)) as ex:
        for j, res in ex.map(run_job, jobs):
            results.append((j, res))
            if res['verdict'] == 'NOT-RUN':
                continue
            if a.v or (not j['twin']):
                log('  %-7s %-28s %s %-10s paths=%-6s solver=%.1fs wall=%.1fs %s'
                    % ('twin' if j['twin'] else 'canary' if j.get('canary') else j['kind'], j['name'], json.dumps(j['params']), res['verdict'],
                       res.get('paths', '-'), res.get('solver_s', 0), res.get('wall_s', 0),
                       '' if res['verdict'] in ('CONFIRMED',) or j['twin'] else (res.get('message') or '')[:300].replace('\n', ' ')))

    # ---- verdicts -----------------------------------------------------------------
    twins = {(j['name'], json.dumps(j['params'], sort_keys=True)): r for j, r in results if j['twin']}
    obligations = discharged = 0
    inconclusive = []
    violations = []
    harness_errors = []
    lemma_rows = []
    canaries = []
    for j, r in results:
        if j.get('canary'):
            ok = r['verdict'] == 'REFUTED'
            canaries.append({'lemma': j['name'], 'params': j['params'], 'verdict': r['verdict'], 'ok': ok,
                             'counterexample': r.get('args')})
            if not ok:
                inconclusive.append('canary %s %s was not refuted (%s): the lemma is not sensitive to a known-false variant'
                                    % (j['name'], j['params'], r['verdict']))
    not_attempted = []
    for j, r in results:
        if j['twin'] or j.get('canary'):
            continue
        obligations += 1
        if r['verdict'] == 'NOT-RUN':
            not_attempted.append({'lemma': j['name'], 'params': j['params']})
            continue
        key = (j['name'], json.dumps(j['params'], sort_keys=True))
        tw = twins.get(key)
        row = {'lemma': j['name'], 'engine': j['kind'], 'params': j['params'], 'verdict': r['verdict'],
               'paths': r.get('paths', 0), 'confirmed_paths': r.get('confirmed_paths', 0),
               'nontrivial_paths': r.get('nontrivial_paths', 0), 'solver_queries': r.get('solver_queries', 0),
               'solver_s': r.get('solver_s', 0), 'wall_s': r.get('wall_s', 0), 'timeout_s': j['timeout'],
               'contract': j['meta'].doc, 'covers_declared': j['meta'].covers, 'stubs': j['meta'].stubs,
               'note': j['meta'].note}
        if j['kind'] == 'chx':
            row['twin'] = tw['verdict'] if tw else 'MISSING'
            row['twin_witness'] = tw.get('args') if tw else None
        else:
            row.update({k: r[k] for k in ('queries', 'detail') if k in r})
        v = r['verdict']
        if v == 'CONFIRMED':
            if j['kind'] == 'chx' and (tw is None or tw['verdict'] != 'REFUTED'):
                row['verdict'] = 'VACUOUS?'
                inconclusive.append('%s %s: reachability twin was not refuted (%s)' % (j['name'], j['params'], tw['verdict'] if tw else 'missing'))
            else:
                discharged += 1
        elif v == 'REFUTED':
            if 'args' not in r:
                harness_errors.append('%s: counter-example could not be parsed: %s' % (j['name'], r.get('message')))
                row['verdict'] = 'HARNESS-ERROR'
            else:
                path = write_replay(pid, j, r)
                rc, out, err, _ = sh([path], 600)
                row['counterexample'] = r['args']
                row['replay'] = path
                if rc == 0 and 'REPRODUCED' in out and 'NOT-REPRODUCED' not in out:
                    violations.append((j, r, path, out))
                    row['verdict'] = 'VIOLATED'
                else:
                    harness_errors.append('%s: counter-example %r did not reproduce (%s): %s'
                                          % (j['name'], r['args'], path, (out + err)[-400:]))
                    row['verdict'] = 'HARNESS-ERROR'
        elif v == 'ERROR':
            harness_errors.append('%s: %s' % (j['name'], r.get('message')))
        else:
            inconclusive.append('%s %s: %s %s' % (j['name'], j['params'], v, (r.get('message') or '')[:200]))
        lemma_rows.append(row)

    if not_attempted:
        inconclusive.append('%d obligation(s) of this tier were not started within the wall budget of %d s (listed under coverage.not_attempted; '
                            'run with --budget 0 for the complete list)' % (len(not_attempted), a.budget))

    # ---- concrete side conditions & known findings ----------------------------------
    side = []
    for fn in getattr(mod, 'SIDE_CONDITIONS', []):
        try:
            ok, detail = fn()
        except Exception as e:
            ok, detail = False, 'raised %r' % (e,)
        side.append({'name': fn.__name__, 'ok': bool(ok), 'detail': detail})
        if not ok:
            inconclusive.append('side condition %s does not hold: %s' % (fn.__name__, detail))
    findings_out = []
    regress = []
    for f in load_findings(pid):
        wmod, wfn = f['witness'].split(':')
        code = ('import importlib,json,vfy.lemma as L; L.CONCRETE=True; m=importlib.import_module(%r); '
                'r=getattr(m,%r)(); print("RESULT "+json.dumps({"fails": bool(r[0]), "detail": str(r[1])[:500]}))' % (wmod, wfn))
        rc, out, err, _ = sh([PLAIN_PY, '-c', code], 300)
        r = parse_result(out) or {'fails': None, 'detail': 'witness did not run: ' + err[-300:]}
        entry = dict(f, still_fails=r['fails'], detail=r['detail'])
        findings_out.append(entry)
        if f['status'] == 'known':
            if r['fails']:
                log('KNOWN-FINDING: property=%s %s' % (pid, f['what']))
            elif r['fails'] is False:
                log('note: known finding %s no longer reproduces (stale entry)' % f['id'])
        elif f['status'] == 'fixed' and r['fails']:
            regress.append((f, r))

    # ---- report -------------------------------------------------------------------
    rc = 0
    for j, r, path, out in violations:
        log('VIOLATION property=%s replay=%s' % (pid, path))
        log('  lemma %s params=%s args=%r' % (j['name'], j['params'], r['args']))
        log('  ' + out.strip().replace('\n', '\n  ')[:1500])
        rc = 1
    for f, r in regress:
        log('VIOLATION property=%s replay=%s' % (pid, os.path.join(ROOT, 'known_findings.json') + '#' + f['id']))
        log('  fixed finding came back: %s -- %s' % (f['what'], r['detail']))
        rc = 1
    for h in harness_errors:
        log('HARNESS-ERROR ' + h)
    if harness_errors and rc == 0:
        rc = 2
    for i in inconclusive:
        log('inconclusive: ' + i)

    chx_rows = [r for r in lemma_rows]
    paths = sum(r['paths'] for r in chx_rows)
    queries = sum(r['solver_queries'] for r in chx_rows)
    nontriv = sum(r['nontrivial_paths'] for r in chx_rows)
    functions = sorted({f for j, r in results if not j['twin'] and not j.get('canary') for f in r.get('functions', [])})
    samples = []
    for row in lemma_rows:
        if row.get('twin_witness') is not None and len(samples) < 12:
            samples.append({'lemma': row['lemma'], 'params': row['params'],
                            'solver_model_reaching_the_assertion': row['twin_witness']})
        if row.get('counterexample') is not None:
            samples.append({'lemma': row['lemma'], 'counterexample': row['counterexample']})
        if row['engine'] == 'rx' and row.get('detail'):
            samples.append({'lemma': row['lemma'], 'queries': row['detail'][:6]})
    if not samples:
        samples = [{'lemma': r['lemma'], 'params': r['params'], 'verdict': r['verdict']} for r in lemma_rows[:5]] or [{'none': True}]
    wall = round(time.time() - t_start, 1)
    evidence = {
        'property_id': pid, 'tier': a.tier, 'seed': seed, 'level': 'model_checking', 'wall_s': wall,
        'violations': len(violations) + len(regress),
        'assumptions': [
            'bounded claim: each lemma holds for ALL values satisfying its `pre:` (bounds quoted per lemma); nothing is claimed outside',
            'CrossHair 0.0.110 path exhaustion + z3; CrossHair string/regex models as repaired by vfy/plug (differentially gated this run: %d cases, %d pattern(s) denied)' % (gate.get('cases', 0), len(deny)),
            'composition of lemmas into the property is the prose argument of DESIGN.md section 5',
        ] + list(getattr(mod, 'ASSUMPTIONS', [])),
        'coverage': {
            'evaluations': paths + queries,
            'distinct_nontrivial': nontriv,
            'rule': 'evaluations = symbolic execution paths explored + SMT queries discharged; a path is distinct by construction '
                    '(CrossHair never revisits a decision prefix) and non-trivial iff it contains >= 1 solver-decided branch on a symbolic input (counted in the worker)',
            'samples': samples,
            'obligations': obligations, 'discharged': discharged, 'inconclusive': inconclusive,
            'not_attempted': not_attempted, 'wall_budget_s': a.budget, 'per_obligation_cap_s': a.cap,
            'exhaustive': bool(obligations and discharged == obligations and not inconclusive),
            'explanation': 'each obligation is one lemma x parameter set; discharged = CrossHair "Confirmed over all paths" (every feasible path within the bound executed, post-condition held) with a refuted reachability twin, or z3 unsat for a regular-language query',
            'paths': paths, 'solver_queries': queries,
            'solver_s': round(sum(r['solver_s'] for r in chx_rows), 2),
            'functions_executed': functions,
            'lemmas': lemma_rows,
            'side_conditions': side,
            'canaries': canaries,
            'known_findings': findings_out,
            'harness_errors': harness_errors,
            'gate': {'cases': gate.get('cases', 0), 'deny': deny, 'cached': gate.get('cached', False),
                     'disagreeing_patterns': gate_bad, 'maskset': gate.get('maskset'),
                     'str_method_disagreements': gate.get('deny_str', []), 'wall_s': gate.get('wall_s')},
            'outside_the_claim': list(getattr(mod, 'OUTSIDE', [])),
            'tools': {'crosshair': '0.0.110', 'z3': _z3v(), 'python': sys.version.split()[0]},
        },
    }
    if not a.no_evidence and not a.only:
        os.makedirs(os.path.join(ROOT, 'evidence'), exist_ok=True)
        tmp = os.path.join(ROOT, 'evidence', '%s.json.tmp' % pid)
        json.dump(evidence, open(tmp, 'w'), indent=1, default=str)
        os.replace(tmp, os.path.join(ROOT, 'evidence', '%s.json' % pid))
    log('%s %s: obligations=%d discharged=%d inconclusive=%d violations=%d harness_errors=%d paths=%d queries=%d wall=%.0fs'
        % (pid, a.tier, obligations, discharged, len(inconclusive), len(violations) + len(regress), len(harness_errors), paths, queries, wall))
    return rc


def _z3v():
    try:
        out = subprocess.run([PY, '-c', 'import z3; print(z3.get_version_string())'], capture_output=True, text=True, timeout=60).stdout.strip()
        return out
    except Exception:
        return '?'


if __name__ == '__main__':
    sys.exit(main())
